"""Self-tests of the simulator (run by setup_cmd in short form; VERIF_TIER=thorough for the long form).

1. SimSet/SimFrozenSet differential test against the builtin set (same membership/equality/len after random ops,
   iteration is a permutation of the builtin's elements, insertion order kept under identity).
2. Determinism: run seeds executed twice, in different worker processes, under two harness hash seeds and with
   1 and N workers; event-log digests must be equal (this also shows no un-instrumented set order leaks in).
3. Thread-scheduler determinism and replay: same seed -> same switch list and outcomes; replaying the explicit
   switch list reproduces them.
"""
import json as _json
import random

from . import seeds
from .pool import HarnessError, Pool, unwrap
from .workload import gen_workload


def simset_differential(n_cases=300):
    from .simset import SCHED, SimFrozenSet, SimSet, _volatile

    def _vol(x):
        return len(x) >= 2 and _volatile(list(x))
    SCHED.reset("identity")
    rng = random.Random(12345)
    pool_ = ["a", "b", "c", "dd", "e", 1, 2, 3, None, ("x", 1), "f", "g"]
    for case in range(n_cases):
        a, b = set(), SimSet()
        order = []
        for _ in range(rng.randint(0, 25)):
            op = rng.choice(["add", "add", "add", "discard", "remove", "pop", "update", "ior", "iand", "isub", "ixor",
                             "clear", "intersection_update", "difference_update"])
            other = [rng.choice(pool_) for _ in range(rng.randint(0, 4))]
            o2 = rng.choice([lambda x: x, set, SimSet, frozenset, SimFrozenSet])(other)
            e = rng.choice(pool_)
            if op == "add":
                a.add(e); b.add(e)
                if e not in order:
                    order.append(e)
            elif op == "discard":
                a.discard(e); b.discard(e)
            elif op == "remove":
                if e in a:
                    a.remove(e); b.remove(e)
                else:
                    try:
                        b.remove(e)
                        raise AssertionError("remove of a missing element did not raise")
                    except KeyError:
                        pass
            elif op == "pop":
                if a:
                    x = b.pop()
                    assert x in a
                    a.remove(x)
            elif op == "update":
                a.update(other); b.update(o2)
            elif op == "clear":
                a.clear(); b.clear()
            elif op == "intersection_update":
                a.intersection_update(other); b.intersection_update(o2)
            elif op == "difference_update":
                a.difference_update(other); b.difference_update(o2)
            elif isinstance(o2, (set, frozenset)):
                if op == "ior":
                    a |= set(other); b |= o2
                elif op == "iand":
                    a &= set(other); b &= o2
                elif op == "isub":
                    a -= set(other); b -= o2
                elif op == "ixor":
                    a ^= set(other); b ^= o2
            assert a == b and len(a) == len(b) and sorted(map(repr, a)) == sorted(map(repr, b)), (case, op)
            assert isinstance(b, SimSet)
        other = [rng.choice(pool_) for _ in range(rng.randint(0, 5))]
        for mk in (set, SimSet, frozenset, SimFrozenSet):
            o2 = mk(other)
            for name in ("__or__", "__and__", "__sub__", "__xor__"):
                r1 = getattr(a, name)(set(other))
                r2 = getattr(b, name)(o2)
                assert r1 == r2 and isinstance(r2, SimSet), (case, name)
                assert (not _vol(r1)) or list(r2) == [x for x in list(b._ord) + [y for y in (list(o2._ord) if isinstance(o2, (SimSet, SimFrozenSet)) else sorted(set(other), key=lambda e: (type(e).__name__, repr(e)))) if y not in b] if x in r1], (case, name)
                import operator
                opf = getattr(operator, name.strip("_") + ("_" if name in ("__or__", "__and__") else ""))
                r3 = opf(o2, b)
                r4 = opf(set(other), a)
                assert r3 == r4, (case, name, "reflected")
                if mk is not frozenset:  # builtin frozenset on the left of a SimSet keeps the builtin result
                    assert type(r3).__name__ in ("SimSet", "SimFrozenSet"), (type(r3), type(o2), name)
        f = SimFrozenSet(b)
        assert f == frozenset(a) and hash(f) == hash(frozenset(a)) and (not _vol(a) or list(f) == list(b._ord))
        assert SimSet(f) == a and (not _vol(a) or list(SimSet(f)) == list(b._ord))
        assert b.copy() == a and (not _vol(a) or list(b.copy()) == list(b._ord))
        assert (b <= b | SimSet(other)) and b.isdisjoint(SimSet()) and (repr(b) == "set()" if not a else True)
    # random mode permutes, replays exactly, and never changes membership
    s = SimSet(["k%d" % i for i in range(8)])
    SCHED.reset("random", seed=7)
    p1 = list(s)
    SCHED.reset("random", seed=7)
    p2 = list(s)
    SCHED.reset("random", seed=8)
    p3 = list(s)
    SCHED.reset("identity")
    assert p1 == p2 and sorted(p1) == sorted(p3) == sorted(s) and (p1 != list(s) or p3 != list(s))
    assert list(SimSet([3, 1, 2])) == list(set([3, 1, 2]))  # non-volatile: the real table order
    return n_cases


def _digest_outcomes(results):
    out = []
    for r in results:
        r = unwrap(r)
        out.append(seeds.digest(r))
    return out


def determinism(ctx, n):
    ws = [gen_workload(seeds.derive(ctx.seed, "selftest", i)) for i in range(n)]
    jobs = [{"models": w["models"], "options": w["options"], "structures": ["flat", "nested"]} for w in ws]
    from .checks import c15
    truns = [c15.make_run(ctx.seed + 1, i) for i in range(max(4, n // 4))]
    tjobs = [{"specs": r["specs"], "sched": r["sched"]} for r in truns]
    from .checks import c14, c16, c17
    from .scenario import cli_spec
    hjobs = [{"ops": c14.make_history(ctx.seed + 2, i)} for i in range(max(6, n // 3))]
    cruns = [c16.make_run(ctx.seed + 3, i) for i in range(max(6, n // 3))]
    cjobs = [cli_spec(r["scenario"], clock=r["clock"], glob_seed=r["glob_seed"]) for r in cruns]
    cjobs += [c17.make_spec(r["scenario"], "o_present", glob_seed=1, crash_at=200 + 37 * k) for k, r in enumerate(cruns[:4])]

    def cli_digest(results):
        out = []
        for r in results:
            r = dict(unwrap(r))
            d = r.pop("dir")
            if r.get("out_b64"):  # the scratch directory name (random) appears in the header's command line
                import base64
                r["out_b64"] = base64.b64decode(r["out_b64"]).decode("utf-8", "replace").replace(d, "<DIR>")
            out.append(seeds.digest(_json.loads(_json.dumps(r).replace(d, "<DIR>"))))
        return out

    digests = []
    for workers, hs in ((1 if n <= 40 else 4, 0), (ctx.jobs, 0), (ctx.jobs, 7)):
        with Pool(workers, instrument=True, hashseed=hs) as p:
            d1 = _digest_outcomes(p.map("pipeline:job_full", jobs))
            d2 = _digest_outcomes(p.map("pipeline:job_full", jobs))
            if d1 != d2:
                raise HarnessError("pipeline job not deterministic within one configuration")
            t1 = [unwrap(r) for r in p.map("checks.c15:job_threads", tjobs, timeout=150)]
            # replay of the explicit schedules must reproduce outcomes and switch lists
            rjobs = [{"specs": r["specs"], "replay": t["schedule"]} for r, t in zip(truns, t1)]
            t2 = [unwrap(r) for r in p.map("checks.c15:job_threads", rjobs, timeout=150)]
            for a, b in zip(t1, t2):
                if a["outcomes"] != b["outcomes"] or a["schedule"] != b["schedule"] or a["steps"] != b["steps"]:
                    raise HarnessError("baton schedule replay diverged")
            h1 = _digest_outcomes(p.map("checks.c14:job_history", hjobs, timeout=120))
            c1 = cli_digest(p.map("simenv:job_cli", cjobs, timeout=120))
            digests.append((d1, [seeds.digest([t["outcomes"], t["schedule"], t["steps"]]) for t in t1], h1, c1))
    if any(d != digests[0] for d in digests[1:]):
        raise HarnessError("event-log digests depend on worker count or harness hash seed")
    return len(jobs) * 6 + len(tjobs) * 6 + (len(hjobs) + len(cjobs)) * 3


def run(ctx):
    n = 24 if ctx.tier == "quick" else 200
    cases = simset_differential(150 if ctx.tier == "quick" else 2000)
    runs = determinism(ctx, n)
    print(f"selftest ok: simset differential cases={cases}, determinism executions={runs}")
    return 0
