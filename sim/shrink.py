"""Minimisation: ddmin over explicit lists and a structural shrinker for workloads (budgeted, parallel batches)."""
import copy


class Budget:
    def __init__(self, n):
        self.left = n
        self.used = 0

    def take(self, k=1):
        if self.left < k:
            return False
        self.left -= k
        self.used += k
        return True


def ddmin(items, test, budget: Budget):
    """Classic ddmin: smallest sublist (by chunk removal) for which test(sublist) is still True."""
    items = list(items)
    n = 2
    while len(items) >= 1:
        if len(items) == 1:
            if budget.take() and test([]):
                return []
            return items
        chunk = max(1, len(items) // n)
        subsets = [items[i:i + chunk] for i in range(0, len(items), chunk)]
        reduced = False
        # try complements (remove one chunk)
        for i in range(len(subsets)):
            comp = [x for j, sub in enumerate(subsets) if j != i for x in sub]
            if not budget.take():
                return items
            if test(comp):
                items = comp
                n = max(n - 1, 2)
                reduced = True
                break
        if not reduced:
            if chunk == 1:
                break
            n = min(len(items), n * 2)
    return items


# ---- workload shrinking -------------------------------------------------------------------------------------------
DEFAULT_OPTIONS = {
    "framework": "base", "structure": "flat", "merge": ["percent", "number"], "dict_keys_regex": [],
    "dict_keys_fields": [], "max_literals": 10, "post_init_converters": False, "convert_unicode": True,
    "meta": False, "preamble": None, "str_types": ["int", "float", "bool"],
}


def _paths(v, path=()):
    """All (path) of sub-values in a JSON value (dict keys and list indices)."""
    yield path
    if isinstance(v, dict):
        for k in list(v):
            yield from _paths(v[k], path + (k,))
    elif isinstance(v, list):
        for i in range(len(v)):
            yield from _paths(v[i], path + (i,))


def _get(v, path):
    for p in path:
        v = v[p]
    return v


def _del(root, path):
    parent = _get(root, path[:-1])
    del parent[path[-1]]


def _set(root, path, value):
    parent = _get(root, path[:-1])
    parent[path[-1]] = value


def _simpler(v):
    if isinstance(v, dict) and v:
        return [{}]
    if isinstance(v, list) and v:
        return [[], v[:1]] if len(v) > 1 else [[]]
    if isinstance(v, str) and v not in ("s",):
        return ["s"]
    if isinstance(v, bool):
        return []
    if isinstance(v, (int, float)) and v != 0:
        return [0]
    return []


def workload_candidates(w):
    """Yield strictly simpler variants of a workload, most aggressive first."""
    models = w["models"]
    # drop whole models
    if len(models) > 1:
        for i in range(len(models)):
            c = copy.deepcopy(w)
            del c["models"][i]
            yield c
    # drop samples
    for i, (name, samples) in enumerate(models):
        if len(samples) > 1:
            for j in range(len(samples)):
                c = copy.deepcopy(w)
                del c["models"][i][1][j]
                yield c
    # options towards defaults
    for k, dv in DEFAULT_OPTIONS.items():
        if k in w["options"] and w["options"][k] != dv:
            c = copy.deepcopy(w)
            c["options"][k] = dv
            yield c
    # drop keys / list items (outermost first)
    for i, (name, samples) in enumerate(models):
        for j, smp in enumerate(samples):
            for path in sorted((p for p in _paths(smp) if p), key=len):
                c = copy.deepcopy(w)
                try:
                    _del(c["models"][i][1][j], path)
                except (KeyError, IndexError, TypeError):
                    continue
                if c["models"][i][1][j] == {}:
                    continue
                yield c
    # simplify values
    for i, (name, samples) in enumerate(models):
        for j, smp in enumerate(samples):
            for path in sorted((p for p in _paths(smp) if p), key=len):
                for sv in _simpler(_get(smp, path)):
                    c = copy.deepcopy(w)
                    _set(c["models"][i][1][j], path, sv)
                    yield c


def shrink_workload(w, test_batch, budget: Budget, batch=16):
    """Greedy structural shrinking.  test_batch(list of workloads) -> list of bool ("still fails")."""
    w = copy.deepcopy(w)
    w.pop("knobs", None)
    w.pop("paths", None)
    # long sample lists first: ddmin over whole samples (the fine-grained candidates below are quadratic in list length)
    for mi in range(len(w["models"])):
        if len(w["models"][mi][1]) > 12 and budget.left > 0:
            def test(sub, mi=mi):
                if not sub:
                    return False
                c = copy.deepcopy(w)
                c["models"][mi][1] = list(sub)
                return bool(test_batch([c])[0])
            kept = ddmin(w["models"][mi][1], test, Budget(min(60, budget.left)))
            if kept:
                w["models"][mi][1] = kept
    progress = True
    while progress and budget.left > 0:
        progress = False
        gen = workload_candidates(w)
        while True:
            cands = []
            for c in gen:
                cands.append(c)
                if len(cands) >= batch:
                    break
            if not cands:
                break
            if not budget.take(len(cands)):
                cands = cands[:budget.left]
                if not cands or not budget.take(len(cands)):
                    return w
            verdicts = test_batch(cands)
            hit = next((c for c, v in zip(cands, verdicts) if v), None)
            if hit is not None:
                w = hit
                progress = True
                break
    return w
