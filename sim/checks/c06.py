"""C06 - output is a deterministic function of inputs and options.

Layer B (ground truth, only source of VIOLATION): real un-instrumented interpreters started with different
PYTHONHASHSEEDs; identity-hashed objects (ModelPtr) get a simulated, seeded memory address.  Any two workers that
disagree on the bytes for the same samples/options violate the property.
Layer A (search + attribution): instrumented workers; identity order vs K seeded random set-iteration schedules.
A difference is a *candidate*; it is confirmed by a wide layer-B sweep or reported as unconfirmed (no failure).
Thorough tier adds the real CLI as a subprocess under several hash seeds and simulated-clock jumps.
"""
import os
import random
import shutil
import subprocess
import tempfile
import json as _json

from .. import seeds, shrink
from ..pool import HarnessError, HeteroPool, Pool, PYTHON, Skips, unwrap
from ..workload import gen_workload

PROP = "C06"
LEVEL = "exploration"
STRUCTS = ["flat", "nested"]


# ---- worker side --------------------------------------------------------------------------------------------------
def install_sim_addresses(seed, mode="random"):
    """Give identity-hashed ModelPtr objects a simulated (seeded, legal) address as their hash."""
    from json_to_models.dynamic_typing import ModelMeta, ModelPtr
    try:
        probe = ModelPtr(ModelMeta({}, "0A"))
        by_identity = hash(probe) == id(probe)
    except Exception:  # noqa
        by_identity = False
    if not by_identity:
        return False
    rng = random.Random(seed)
    base = 0x7F0000000000 + (rng.getrandbits(30) << 4)
    counter = [0]
    stride = rng.choice([48, 64, 80, 112, 16])

    addr = {}
    keep = []
    real_id = id

    def sim_hash(self):
        # side table keyed by the real address (objects are kept alive, so keys are never re-used); the objects
        # themselves are not touched (they may use __slots__)
        k = real_id(self)
        a = addr.get(k)
        if a is None:
            counter[0] += 1
            if mode == "random":
                a = 0x7F0000000000 + (rng.getrandbits(34) << 4)
            elif mode == "sequential":
                a = base + counter[0] * stride
            else:  # descending
                a = base - counter[0] * stride
            addr[k] = a
            keep.append(self)
        return a

    ModelPtr.__hash__ = sim_hash
    install_sim_id(seed)
    return True


def install_sim_id(seed):
    """`id` seam: every module of the package gets a module-global `id` that returns a seeded pseudo-address per
    object (stable for the lifetime of the job, never re-used).  Code that orders or keys things by id() therefore sees
    a different - but legal - memory layout in every real worker, instead of the nearly identical allocation order of
    identical processes."""
    import sys
    rng = random.Random(seed ^ 0x5EED1D)
    table = {}
    keep = []

    def sim_id(obj):
        k = builtins_id(obj)
        v = table.get(k)
        if v is None:
            v = table[k] = 0x7E0000000000 + (rng.getrandbits(34) << 4)
            keep.append(obj)  # keep the object alive: its real address must not be re-used under the same key
        return v

    import builtins
    builtins_id = builtins.id
    for name, mod in list(sys.modules.items()):
        if (name == "json_to_models" or name.startswith("json_to_models.")) and mod is not None \
                and "id" not in vars(mod):
            mod.id = sim_id


def job_real(args):
    from ..pipeline import job_full
    patched = install_sim_addresses(args.get("addr_seed", 0), args.get("addr_mode", "random"))
    out = job_full({"models": args["models"], "options": args["options"], "structures": args.get("structures", STRUCTS)})
    out = {k: v for k, v in out.items() if "#" not in k}
    out["_addr_patched"] = patched
    return out


# ---- parent side --------------------------------------------------------------------------------------------------
def strip(res):
    return {k: v for k, v in res.items() if not k.startswith("_") and "#" not in k}


def worker_configs(seed, n):
    """(hashseed, addr_seed, addr_mode) per real worker; worker 0 is the plain baseline."""
    rng = seeds.derive(seed, PROP, "real-workers")
    cfgs = [(0, 0, "sequential")]
    used = {0}
    while len(cfgs) < n:
        h = rng.randrange(1, 2 ** 32)
        # workers 1, 5, 9, 13: hash seed = 3 (mod 4), which HeteroPool starts with asserts stripped (python -O)
        h = (h | 3) if len(cfgs) % 4 == 1 else (h ^ 1 if h % 4 == 3 else h)
        if h in used:
            continue
        used.add(h)
        cfgs.append((h, rng.getrandbits(32), rng.choice(["random", "random", "sequential", "descending"])))
    return cfgs


def real_sweep(cfgs, workloads, timeout=45, skips=None):
    """results[w][j] (stripped outcomes) for every config w and workload j."""
    with HeteroPool([c[0] for c in cfgs], instrument=False) as hp:
        res = hp.map_all("checks.c06:job_real",
                         lambda wi, j: {"models": workloads[j]["models"], "options": workloads[j]["options"],
                                        "addr_seed": cfgs[wi][1], "addr_mode": cfgs[wi][2]},
                         len(workloads), timeout=timeout)
    skips = skips if skips is not None else Skips(limit=max(5, len(workloads) // 100))
    out = []
    for row in res:
        out.append([])
        for r in row:
            v = skips.take(r)
            out[-1].append(strip(v) if v is not None else None)
    return out


def disagreement(column):
    """column: outcomes of all workers for one workload -> (w1, w2, structure) of a disagreeing pair or None.
    A workload for which some worker ran into the job time limit is not judged."""
    if any(c is None for c in column):
        return None
    for s in STRUCTS:
        for w in range(1, len(column)):
            if column[w].get(s) != column[0].get(s):
                return 0, w, s
    return None


def first_diff(a, b):
    ta = a.get("text", str(a))
    tb = b.get("text", str(b))
    la, lb = ta.split("\n"), tb.split("\n")
    for i, (x, y) in enumerate(zip(la, lb)):
        if x != y:
            return f"line {i + 1}: {x!r} vs {y!r}"
    return f"length {len(la)} vs {len(lb)} lines"


def attribute(pool, w, structure, n_sched=96):
    """Layer A on one workload: culprit (site@occ) set whose permutation changes the output, or None."""
    base = unwrap(pool.map("pipeline:job_full", [{"models": w["models"], "options": w["options"],
                                                  "structures": [structure]}])[0])
    jobs = [{"models": w["models"], "options": w["options"], "structures": [structure],
             "sched": {"mode": "random", "seed": s}} for s in range(1, n_sched + 1)]
    res = [unwrap(r) for r in pool.map("pipeline:job_full", jobs)]
    hit = next((k for k, r in enumerate(res) if r[structure] != base[structure]), None)
    if hit is None:
        return None
    sched_seed = hit + 1
    applied = [f"{t[0]}@{t[1]}" for t in res[hit][structure + "#sched"]["trace"]]

    def test(enabled):
        r = unwrap(pool.map("pipeline:job_full", [{"models": w["models"], "options": w["options"],
                                                   "structures": [structure],
                                                   "sched": {"mode": "random", "seed": sched_seed,
                                                             "enabled": enabled}}])[0])
        return r[structure] != base[structure]

    enabled = shrink.ddmin(applied, test, shrink.Budget(120))
    # attribution comes from the minimal replay's own trace
    r = unwrap(pool.map("pipeline:job_full", [{"models": w["models"], "options": w["options"],
                                               "structures": [structure],
                                               "sched": {"mode": "random", "seed": sched_seed,
                                                         "enabled": enabled}}])[0])
    sites = sorted({t[0] for t in r[structure + "#sched"]["trace"]})
    return {"sched_seed": sched_seed, "enabled": enabled, "sites": sites,
            "identity": base[structure], "permuted": r[structure]}


def site_key(sites):
    def short(s):
        parts = s.split(":", 2)
        return (parts[0] + ":" + parts[1] + ":" + seeds.digest(parts[2] if len(parts) > 2 else "")[:6])
    return "+".join(sorted(short(s) for s in sites)) if sites else "unattributed"


def minimise_real(cfgs, w, budget=None):
    """Shrink the workload while some pair of real workers still disagrees."""
    budget = budget or shrink.Budget(260)
    with HeteroPool([c[0] for c in cfgs], instrument=False) as hp:
        def test_batch(cands):
            res = hp.map_all("checks.c06:job_real",
                             lambda wi, j: {"models": cands[j]["models"], "options": cands[j]["options"],
                                            "addr_seed": cfgs[wi][1], "addr_mode": cfgs[wi][2]},
                             len(cands), timeout=60)
            out = []
            for j in range(len(cands)):
                try:
                    col = [strip(unwrap(res[wi][j])) for wi in range(len(cfgs))]
                    out.append(disagreement(col) is not None)
                except HarnessError:
                    out.append(False)
            return out
        small = shrink.shrink_workload(w, test_batch, budget)
        res = hp.map_all("checks.c06:job_real",
                         lambda wi, j: {"models": small["models"], "options": small["options"],
                                        "addr_seed": cfgs[wi][1], "addr_mode": cfgs[wi][2]}, 1, timeout=60)
        col = [strip(unwrap(res[wi][0])) for wi in range(len(cfgs))]
    return small, col


def report_real(rep, pool, cfgs, w, note=""):
    small, col = minimise_real(cfgs, w)
    d = disagreement(col)
    if d is None:  # cannot happen: shrinking keeps the predicate
        small, d = w, None
        return None
    w1, w2, s = d
    att = attribute(pool, small, s)
    key = site_key(att["sites"]) if att else "unattributed:" + seeds.digest(small)[:10]
    text = (f"same samples/options, real interpreters {cfgs[w1][:2]} vs {cfgs[w2][:2]}, layout {s}: "
            + first_diff(col[w1][s], col[w2][s]) + (f"; culprit set-iteration sites: {att['sites']}" if att else "")
            + note)
    return rep.violation(key, {
        "kind": "real-interpreters", "workload": small, "structure": s,
        "configs": [list(cfgs[w1]), list(cfgs[w2])], "outcomes": [col[w1][s], col[w2][s]],
        "attribution": att, "clause": "byte equality of output across hash seeds / memory layouts",
    }, text)


def run(ctx):
    rep = ctx.reporter(PROP, LEVEL)
    quick = ctx.tier == "quick"
    n_w = int((900 if quick else 12000) * ctx.scale)
    k_sched = 5 if quick else 8
    n_real = 16
    workloads = [gen_workload(seeds.derive(ctx.seed, PROP, "w", i)) for i in range(n_w)]
    cfgs = worker_configs(ctx.seed, n_real)
    evaluations = 0
    samples = []
    # ---- layer B
    real = real_sweep(cfgs, workloads)
    evaluations += n_real * n_w * len(STRUCTS)
    bad_real = [j for j in range(n_w) if disagreement([real[wi][j] for wi in range(n_real)])]
    # ---- layer A
    candidates = []
    fidelity_suspects = []
    distinct_a = set()
    nontrivial_b = 0
    points_total = 0
    site_hist = {}
    perms_applied = 0
    with Pool(ctx.jobs, instrument=True) as pool:
        jobs = []
        for j, w in enumerate(workloads):
            jobs.append({"models": w["models"], "options": w["options"], "structures": STRUCTS})
            for k in range(k_sched):
                jobs.append({"models": w["models"], "options": w["options"], "structures": STRUCTS,
                             "sched": {"mode": "random", "seed": seeds.derive_int(ctx.seed, PROP, "sched", j, k)}})
        skips_a = Skips(limit=max(5, len(jobs) // 200))
        res = [skips_a.take(r) for r in pool.map("pipeline:job_full", jobs, timeout=45)]
        evaluations += len(jobs) * len(STRUCTS)
        unorderable = 0
        for j, w in enumerate(workloads):
            block = res[j * (k_sched + 1):(j + 1) * (k_sched + 1)]
            if any(b is None for b in block) or any(real[wi][j] is None for wi in range(n_real)):
                continue  # a job of this workload ran into the time limit: not judged
            ident = block[0]
            pts = sum(ident[s + "#sched"]["points"] for s in STRUCTS)
            points_total += pts
            unorderable += sum(len(ident[s + "#sched"]["unorderable"]) for s in STRUCTS)
            for s in STRUCTS:
                for site, c in ident[s + "#sched"]["sites"].items():
                    site_hist[site] = site_hist.get(site, 0) + c
            if pts:
                nontrivial_b += 1
            for k, r in enumerate(block[1:]):
                for s in STRUCTS:
                    tr = r[s + "#sched"]["trace"]
                    if tr:
                        perms_applied += len(tr)
                        distinct_a.add(seeds.digest([j, s, tr]))
                    if r[s] != ident[s] and j not in bad_real:
                        candidates.append((j, s, jobs[j * (k_sched + 1) + 1 + k]["sched"]["seed"]))
            if j not in bad_real and strip(ident) != real[0][j]:
                fidelity_suspects.append(j)
            if len(samples) < 3 and pts:
                samples.append({"workload": j, "models_excerpt": str(w["models"])[:400], "options": w["options"],
                                "decision_points": pts,
                                "example_trace": (block[1]["flat#sched"]["trace"] or block[1]["nested#sched"]["trace"])[:3],
                                "real_configs_agree": j not in bad_real})
        if unorderable:
            raise HarnessError("a builtin set with no canonical order reached instrumented code")

        # ---- violations from layer B (real interpreters disagree)
        reported_keys = set()
        for j in bad_real[:40]:
            if len(rep.violations) >= 3:
                break
            col = [real[wi][j] for wi in range(n_real)]
            w1, w2, s = disagreement(col)
            # cheap pre-attribution to avoid minimising the same culprit again and again
            att0 = attribute(pool, workloads[j], s, n_sched=32)
            k0 = site_key(att0["sites"]) if att0 else None
            if k0 and k0 in reported_keys:
                continue
            report_real(rep, pool, cfgs, workloads[j])
            if k0:
                reported_keys.add(k0)
            if rep.violations:
                reported_keys.add(rep.violations[-1][0])
            reported_keys.update(rep.known_seen)

        # ---- candidates from layer A that layer B did not see: wide real sweep
        unconfirmed = []
        cand_by_w = {}
        for j, s, sd in candidates:
            cand_by_w.setdefault(j, (s, sd))
        todo = sorted(cand_by_w)[:6 if quick else 40]
        if todo and len(rep.violations) < 3:
            wide = worker_configs(ctx.seed + 1, 32 if quick else 64)
            wide_res = real_sweep(wide, [workloads[j] for j in todo])
            evaluations += len(wide) * len(todo) * len(STRUCTS)
            for idx, j in enumerate(todo):
                col = [wide_res[wi][idx] for wi in range(len(wide))]
                if disagreement(col):
                    if len(rep.violations) < 3:
                        report_real(rep, pool, wide, workloads[j], note=" (nominated by the order scheduler)")
                else:
                    unconfirmed.append({"workload": j, "structure": cand_by_w[j][0], "sched_seed": cand_by_w[j][1]})

        # ---- instrumentation fidelity: identity output must be the real output when real outputs are stable
        fidelity_checked = n_w - len(bad_real)
        if fidelity_suspects:
            wide = worker_configs(ctx.seed + 2, 32)
            sus = fidelity_suspects[:8]
            wide_res = real_sweep(wide, [workloads[j] for j in sus])
            for idx, j in enumerate(sus):
                col = [wide_res[wi][idx] for wi in range(len(wide))]
                if disagreement(col):
                    if len(rep.violations) < 3:
                        report_real(rep, pool, wide, workloads[j], note=" (found by the fidelity cross-check)")
                else:
                    raise HarnessError(f"instrumentation fidelity: identity-order output differs from the stable real "
                                       f"output for workload {j}")

    cli_runs = 0
    clock = {"reads": 0, "span": None}
    if not rep.violations:
        cli_runs = cli_layer(ctx, rep, workloads, n=int((64 if quick else 800) * ctx.scale))
        evaluations += cli_runs
    if not rep.violations:
        clock = clock_layer(ctx, rep, n=int((120 if quick else 3000) * ctx.scale))
        evaluations += clock["runs"]

    warn = []
    if not perms_applied:
        warn.append("no non-identity permutation applied")
    return rep.finish({
        "evaluations": evaluations,
        "distinct_nontrivial": len(distinct_a) + nontrivial_b,
        "rule": "workloads from the seeded generator, both layouts; layer B: 16 real interpreters with distinct "
                "PYTHONHASHSEED and simulated ModelPtr addresses must print identical bytes (non-trivial: the "
                "workload iterates at least one volatile set of >= 2 elements, measured by layer A); layer A: "
                "identity vs seeded random set-iteration schedules (non-trivial + distinct: digest of (workload, "
                "layout, applied non-identity permutations))",
        "samples": samples,
        "workloads": n_w, "real_workers": [list(c) for c in cfgs],
        "real_disagreeing_workloads": len(bad_real),
        "layerA_schedules_per_workload": k_sched, "layerA_distinct_schedules": len(distinct_a),
        "layerB_nontrivial_workloads": nontrivial_b,
        "decision_points_total": points_total, "permutations_applied": perms_applied,
        "decision_sites": dict(sorted(site_hist.items(), key=lambda kv: -kv[1])[:25]),
        "unconfirmed_candidates": unconfirmed[:10],
        "fidelity_checked_workloads": fidelity_checked,
        "fault_kinds": {"set_iteration_permutation": perms_applied, "hash_seed_change": (n_real - 1) * n_w,
                        "simulated_address_layout": n_real * n_w, "clock_jump": clock["reads"],
                        "interpreter_with_asserts_stripped": sum(1 for c in cfgs if c[0] % 4 == 3) * n_w,
                        "same_command_twice_relative_paths_o": LAYER_STATS.get("twice", 0)},
        "cli_subprocess_runs": cli_runs,
        "simulated_time": clock,
        "reach_warnings": warn,
    }, assumptions=[
        "a violation is only reported for real CPython interpreters that disagree; order-scheduler findings that no "
        "real hash seed / address layout reproduces are listed as unconfirmed and do not fail the check",
        "simulated ModelPtr addresses (16-byte aligned, random/sequential/descending) are legal memory layouts",
    ])


# ---- thorough: real CLI subprocesses under several hash seeds ----------------------------------------------------
def header_split(text):
    """(header lines, rest) - the header is the first string token r\"\"\"...\"\"\" of the module."""
    import io
    import tokenize
    try:
        toks = tokenize.generate_tokens(io.StringIO(text).readline)
        for t in toks:
            if t.type == tokenize.STRING:
                end_line = t.end[0]
                lines = text.split("\n")
                return lines[:end_line], "\n".join(lines[end_line:])
            if t.type not in (tokenize.NL, tokenize.COMMENT, tokenize.ENCODING, tokenize.NEWLINE):
                break
    except (tokenize.TokenError, IndentationError, SyntaxError):
        pass
    return [], text


def normalise_cli(text):
    head, rest = header_split(text)
    # only the text after " at " in the timestamp line may differ: keep the prefix
    head = [(ln.split(" at ", 1)[0] + " at <timestamp>" if ln.startswith("generated by json2python-models") else ln)
            for ln in head]
    return "\n".join(head), rest


LAYER_STATS = {}


def cli_env(hs, scratch):
    from .. import loader
    env = dict(os.environ, PYTHONHASHSEED=str(0 if hs == "mtime" else hs), PYTHONPATH=loader.repo_dir(),
               PYTHONIOENCODING="utf-8")
    if hs not in (0, "mtime"):
        # other aspects of the environment that are not input: terminal size, home directory, time zone,
        # interpreter optimisation level (asserts stripped)
        k = hs % 4
        env.update({"COLUMNS": str([40, 80, 200, 10][k]), "LINES": "7", "HOME": scratch,
                    "TZ": ["UTC", "Asia/Tokyo", "America/New_York", "UTC"][k]})
        if k == 1:
            env["PYTHONOPTIMIZE"] = "1"
        if k == 2:
            env["LC_ALL"] = "C"  # (stdout keeps UTF-8 through PYTHONIOENCODING)
    env.pop("TRAVIS", None)
    env.pop("FORCE_COVERAGE", None)
    return env


def cli_cwd(hs, scratch):
    """Every path of the commands of this layer is absolute: the working directory is not input either."""
    if hs not in (0, "mtime") and hs % 4 == 3:
        cwd = os.path.join(scratch, "elsewhere")
        os.makedirs(cwd, exist_ok=True)
        return cwd
    return scratch


def run_twice(scratch, argv, out_name):
    """The same command twice in a row in one directory (relative paths, -o): -> [(status, normalised file text)] * 2."""
    env = cli_env(0, scratch)
    outs = []
    for _ in range(2):
        p = subprocess.run([PYTHON, "-m", "json_to_models", *argv], capture_output=True, env=env, timeout=180, cwd=scratch)
        try:
            with open(os.path.join(scratch, out_name), encoding="utf-8") as fh:
                text = fh.read()
        except OSError:
            text = ""
        head, rest = normalise_cli(text)
        outs.append((p.returncode, head if isinstance(head, str) else "\n".join(head), rest))
    return outs


def cli_layer(ctx, rep, workloads, n):
    """The real CLI as a subprocess (`python -m json_to_models`, real files in one real directory, real clock) under 4
    hash seeds per workload: stdout must be identical except the timestamp line of the header.  Samples are given as
    one file, as many files through recursive / plain glob patterns, or as many explicit -m arguments."""
    from concurrent.futures import ThreadPoolExecutor
    from .. import loader
    rng = seeds.derive(ctx.seed, PROP, "cli")
    # deterministic scratch name: path strings are hashed by the code under test (hash order of Path sets), so a random
    # directory name would make the run depend on something other than VERIF_SEED
    root = "/dev/shm" if os.path.isdir("/dev/shm") else tempfile.gettempdir()
    scratch = None
    for k in range(1000):
        cand = os.path.join(root, f"j2m-c06-{ctx.seed}-{k}")
        try:
            os.mkdir(cand)
            scratch = cand
            break
        except FileExistsError:
            continue
    if scratch is None:
        scratch = tempfile.mkdtemp(prefix="j2m-c06-", dir=root)
    try:
        picks = workloads[:n]
        tasks = []
        file_maps = {}
        import re as _re
        for j, w in enumerate(picks):
            argv = []
            style = rng.choice(["one_file", "many_files_recursive_glob", "many_files_recursive_glob", "many_files_explicit",
                                "many_files_glob"])
            for mi, (name, samples) in enumerate(w["models"]):
                mname = _re.sub(r"\W", "", name) or "M"
                if style == "one_file":
                    fn = os.path.join(scratch, f"w{j}_m{mi}.json")
                    with open(fn, "w", encoding="utf-8") as f:
                        _json.dump(samples, f, ensure_ascii=False)
                    argv += ["-m", mname, fn]
                    continue
                # one file per sample (repeated up to >= 8 files: thread pools, caches and de-duplication in file
                # loading only show with many files), spread over two sub-directories
                items = list(samples)
                while len(items) < 8 and items and rng.random() < 0.7:
                    items += samples
                paths = []
                for si, smp in enumerate(items[:16]):
                    d = os.path.join(scratch, f"w{j}", f"d{mi}", f"sub{si % 2}")
                    os.makedirs(d, exist_ok=True)
                    fn = os.path.join(d, f"s{si:02d}.json")
                    with open(fn, "w", encoding="utf-8") as f:
                        _json.dump(smp, f, ensure_ascii=False)
                    paths.append(fn)
                base = os.path.join(scratch, f"w{j}", f"d{mi}")
                if style == "many_files_recursive_glob":
                    argv += ["-m", mname, os.path.join(base, "**", "*.json")]
                elif style == "many_files_glob":
                    argv += ["-m", mname, os.path.join(base, "sub0", "*.json"), "-m", mname, os.path.join(base, "sub?", "s*.json")]
                else:
                    for fn in paths:
                        argv += ["-m", mname, fn]
            o = w["options"]
            argv += ["-f", o["framework"], "-s", o["structure"], "--max-strings-literals", str(o["max_literals"])]
            if o.get("merge") is not None:
                argv += ["--merge", *o["merge"]]
            if not o["convert_unicode"]:
                argv.append("--no-unidecode")
            if o["post_init_converters"]:
                argv.append("--strings-converters")
            if o["dict_keys_regex"]:
                argv += ["--dkr", *o["dict_keys_regex"]]
            if o["dict_keys_fields"]:
                argv += ["--dkf", *o["dict_keys_fields"]]
            fm = {}
            for root, _d, files in os.walk(scratch):
                for fn in files:
                    full = os.path.join(root, fn)
                    rel = os.path.relpath(full, scratch)
                    if rel.startswith(f"w{j}_") or rel.startswith(f"w{j}{os.sep}"):
                        with open(full, encoding="utf-8") as fh:
                            fm[rel] = fh.read()
            file_maps[j] = fm
            # (the three non-zero seeds are made to select the environment variants 1, 2, 3 in this order, so that every
            # workload is run once with asserts stripped)
            hs_list = [0] + [rng.randrange(1, 2 ** 30) * 4 + k for k in (1, 2, 3)]
            for hs in hs_list:
                tasks.append((j, hs, argv))

        def one(task):
            j, hs, argv = task
            env = cli_env(hs, scratch)
            cwd = cli_cwd(hs, scratch)
            p = subprocess.run([PYTHON, "-m", "json_to_models", *argv], capture_output=True, env=env,
                               timeout=180, cwd=cwd)
            return j, hs, argv, p.returncode, normalise_cli(p.stdout.decode("utf-8", "replace"))

        with ThreadPoolExecutor(max_workers=max(2, ctx.jobs)) as ex:
            results = list(ex.map(one, tasks))
        # second phase: same files, names and contents, but modification times shuffled (environment state that is
        # not input); hash seed 0 again - must equal the first run with hash seed 0
        touched = []
        for j, fm in file_maps.items():
            rels = sorted(fm)
            if len(rels) < 2:
                continue
            order = list(rels)
            rng.shuffle(order)
            for k, rel in enumerate(order):
                t = 1_600_000_000 + 1000 * k
                os.utime(os.path.join(scratch, rel), (t, t))
            touched.append(j)
        first_task = {}
        for t in tasks:
            first_task.setdefault(t[0], t)
        with ThreadPoolExecutor(max_workers=max(2, ctx.jobs)) as ex:
            results2 = list(ex.map(one, [(j, "mtime", first_task[j][2]) for j in touched]))

        # third phase: the same command twice in a row with RELATIVE paths and -o (the second run finds the output file
        # of the first one): the two files may differ only in the timestamp line
        def twice(j):
            argv = [os.path.relpath(a, scratch) if a.startswith(scratch + os.sep) else a for a in first_task[j][2]]
            argv += ["-o", f"out_w{j}.py"]
            return j, argv, run_twice(scratch, argv, f"out_w{j}.py")

        rerun = [j for j in sorted(first_task) if j % 4 == 0]
        with ThreadPoolExecutor(max_workers=max(2, ctx.jobs)) as ex:
            results3 = list(ex.map(twice, rerun))
        LAYER_STATS["twice"] = len(results3)
        for j, argv, outs in results3:
            if outs[0] != outs[1]:
                rep.violation("cli-subprocess-twice:" + seeds.digest(picks[j])[:10], {
                    "kind": "cli-subprocess-twice", "files": file_maps[j], "scratch": scratch, "argv": argv,
                    "out_name": f"out_w{j}.py",
                    "clause": "the same command run twice writes the same file except the timestamp line",
                }, "the same real CLI command (relative paths, -o) run twice in one directory writes different files: "
                   + first_diff({"text": outs[0][1] + "\n" + outs[0][2]}, {"text": outs[1][1] + "\n" + outs[1][2]}))
                return len(results)

        by = {}
        for j, hs, argv, rc, norm in results:
            by.setdefault(j, []).append((hs, argv, rc, norm))
        for j, hs, argv, rc, norm in results2:
            by.setdefault(j, []).append((hs, argv, rc, norm))
        for j, outs in sorted(by.items()):
            base = outs[0]
            for o in outs[1:]:
                if (o[2], o[3]) != (base[2], base[3]):
                    rep.violation("cli-subprocess:" + seeds.digest(picks[j])[:10], {
                        "kind": "cli-subprocess", "files": file_maps[j], "scratch": scratch,
                        "argv": [a.replace(scratch, "{DIR}") for a in base[1]], "hashseeds": [base[0], o[0]],
                        "clause": "CLI stdout identical except the timestamp line",
                    }, ("real CLI subprocess output changes when only the modification times of the input files change: "
                        if o[0] == "mtime" else f"real CLI subprocess differs between PYTHONHASHSEED={base[0]} and {o[0]}: ")
                       + first_diff({"text": base[3][1]}, {"text": o[3][1]}))
                    return len(results)
        return len(results) + len(results2) + 2 * len(results3)
    finally:
        shutil.rmtree(scratch, ignore_errors=True)


def clock_layer(ctx, rep, n):
    """Simulated clock: the same CLI scenario at two different simulated instants (jumps, skew, extreme dates) may differ
    only in the timestamp line of the header; at the same instant the bytes are identical."""
    from ..scenario import cli_spec, gen_scenario
    from .c16 import CLOCKS
    runs = []
    for i in range(n):
        rng = seeds.derive(ctx.seed, PROP, "clock", i)
        sc = gen_scenario(rng, want_out=False)
        a = {"start": rng.choice(CLOCKS) + rng.randrange(86400), "steps": [0]}
        b = {"start": rng.choice(CLOCKS) + rng.randrange(86400), "steps": [rng.choice([0, -86400 * 366, 86400 * 31, 3600])]}
        runs.append((sc, a, b, rng.getrandbits(32)))
    specs = []
    for sc, a, b, g in runs:
        specs += [cli_spec(sc, clock=a, glob_seed=g), cli_spec(sc, clock=a, glob_seed=g), cli_spec(sc, clock=b, glob_seed=g)]
    with Pool(ctx.jobs, instrument=True) as pool:
        recs = [unwrap(r) for r in pool.map("simenv:job_cli", specs, timeout=120)]
    reads, lo, hi = 0, None, None
    for i, (sc, a, b, g) in enumerate(runs):
        r1, r2, r3 = recs[3 * i:3 * i + 3]
        for r in (r1, r2, r3):
            reads += r["clock"]["reads"]
            for t in (r["clock"]["first"], r["clock"]["last"]):
                if t is not None:
                    lo = t if lo is None else min(lo, t)
                    hi = t if hi is None else max(hi, t)
        mask = lambda t, d: t.replace(d, "<DIR>")
        o1, o2, o3 = mask(r1["stdout"], r1["dir"]), mask(r2["stdout"], r2["dir"]), mask(r3["stdout"], r3["dir"])
        bad = None
        if (r1["status"], o1) != (r2["status"], o2):
            bad = "same simulated instant, different bytes: " + first_diff({"text": o1}, {"text": o2})
        elif r1["status"] != r3["status"] or normalise_cli(o1) != normalise_cli(o3):
            bad = "different simulated instants change more than the timestamp line: " + \
                  first_diff({"text": "\n".join(normalise_cli(o1))}, {"text": "\n".join(normalise_cli(o3))})
        if bad:
            rep.violation("clock:" + ("same-instant" if "same simulated" in bad else "other-lines"), {
                "kind": "clock", "scenario": sc, "clocks": [a, b], "glob_seed": g,
                "clause": "only the timestamp line of the header may differ"}, bad)
            break
    return {"runs": len(recs), "reads": reads, "span": [lo, hi],
            "note": "the only time in the system is one clock read for the header; span = range of simulated instants served"}


def replay(ctx, payload):
    if payload.get("kind") == "cli-subprocess-twice":
        scratch = payload.get("scratch")
        try:
            os.makedirs(scratch)
        except (OSError, TypeError):
            scratch = tempfile.mkdtemp(prefix="j2m-c06r-", dir="/dev/shm" if os.path.isdir("/dev/shm") else None)
        try:
            for rel, text in payload["files"].items():
                fn = os.path.join(scratch, rel)
                os.makedirs(os.path.dirname(fn), exist_ok=True)
                with open(fn, "w", encoding="utf-8") as fh:
                    fh.write(text)
            outs = run_twice(scratch, payload["argv"], payload["out_name"])
            if outs[0] != outs[1]:
                return True, "the same command run twice writes different files: " + \
                    first_diff({"text": outs[0][1] + "\n" + outs[0][2]}, {"text": outs[1][1] + "\n" + outs[1][2]})
            return False, "both runs wrote the same file"
        finally:
            shutil.rmtree(scratch, ignore_errors=True)
    if payload.get("kind") == "cli-subprocess":
        # NOTE: exact for hash-seed dependence; a difference caused by uncontrolled real threads inside the CLI process
        # may need several attempts (the replay tries 3 times)
        from .. import loader
        # same directory path as in the original run (path strings are hashed by the code under test)
        scratch = payload.get("scratch")
        try:
            os.makedirs(scratch)
        except (OSError, TypeError):
            scratch = tempfile.mkdtemp(prefix="j2m-c06r-", dir="/dev/shm" if os.path.isdir("/dev/shm") else None)
        try:
            for rel, text in payload["files"].items():
                fn = os.path.join(scratch, rel)
                os.makedirs(os.path.dirname(fn), exist_ok=True)
                with open(fn, "w", encoding="utf-8") as fh:
                    fh.write(text)
            argv = [a.replace("{DIR}", scratch) for a in payload["argv"]]
            for _ in range(3):
                outs = []
                for hs in payload["hashseeds"]:
                    if hs == "mtime":
                        rels = sorted(payload["files"])
                        random.Random(len(outs) + 7).shuffle(rels)
                        for k, rel in enumerate(rels):
                            os.utime(os.path.join(scratch, rel), (1_600_000_000 + 1000 * k,) * 2)
                    p = subprocess.run([PYTHON, "-m", "json_to_models", *argv], capture_output=True, env=cli_env(hs, scratch),
                                       timeout=180, cwd=cli_cwd(hs, scratch))
                    outs.append((p.returncode, normalise_cli(p.stdout.decode("utf-8", "replace"))))
                if outs[0] != outs[1]:
                    return True, "real CLI subprocess output differs between the two hash seeds: " + \
                        first_diff({"text": outs[0][1][1]}, {"text": outs[1][1][1]})
            return False, "CLI outputs identical"
        finally:
            shutil.rmtree(scratch, ignore_errors=True)
    if payload.get("kind") == "clock":
        from ..scenario import cli_spec
        sc, (a, b), g = payload["scenario"], payload["clocks"], payload["glob_seed"]
        with Pool(2, instrument=True) as pool:
            r1, r3 = [unwrap(r) for r in pool.map("simenv:job_cli", [cli_spec(sc, clock=a, glob_seed=g),
                                                                    cli_spec(sc, clock=b, glob_seed=g)])]
        o1, o3 = r1["stdout"].replace(r1["dir"], "<DIR>"), r3["stdout"].replace(r3["dir"], "<DIR>")
        if normalise_cli(o1) != normalise_cli(o3):
            return True, "different simulated instants change more than the timestamp line"
        return False, "only the timestamp line differs"
    if payload.get("kind") == "real-interpreters":
        cfgs = [tuple(c) for c in payload["configs"]]
        res = real_sweep(cfgs, [payload["workload"]])
        s = payload["structure"]
        a, b = res[0][0].get(s), res[1][0].get(s)
        if a != b:
            return True, first_diff(a, b)
        return False, "real interpreters agree"
    return False, "unknown replay kind"
