"""C16 - the command line is a faithful front end to the library pipeline.

Run = a fault-free scenario (sample set split over files / lookups / repeated -m / -l / glob patterns, formats json,
yaml, ini, CLI-expressible option set) executed by the real cli.main() in-process behind the simulated seams: directory
enumeration order (scheduled), wall clock (simulated instants incl. jumps and extreme dates), interposed file objects.
Oracle = executable reference model of the front end (sim/scenario.py): independent parse + lookup + concatenation in
argument order (files of one pattern in the order the event log shows they were opened) + library pipeline in a
pristine fork.
"""
import itertools
import os
import shutil
import subprocess
import tempfile

from .. import seeds, shrink
from ..pool import Pool, PYTHON, Skips, unwrap
from ..scenario import cli_spec, gen_scenario, has_model_code, split_header

PROP = "C16"
LEVEL = "exploration"
CLOCKS = [0, 86399, 951782400, 1_000_000_000, 1_700_000_000, 2 ** 31 - 1, 2 ** 31, 4102444800, 253370764800]


def make_run(seed, i):
    rng = seeds.derive(seed, PROP, i, "scenario")
    sc = gen_scenario(rng)
    crng = seeds.derive(seed, PROP, i, "env")
    clock = {"start": crng.choice(CLOCKS) + crng.randrange(0, 86400),
             "steps": [0] + [crng.choice([0, 1, -3600, 86400 * 365, -86400 * 400]) for _ in range(3)]}
    return {"scenario": sc, "clock": clock, "glob_seed": crng.getrandbits(32),
            "after_prior_command": crng.random() < 0.15,
            # ... and that earlier command saw OLDER CONTENTS at the same paths (every file was rewritten in between,
            # sometimes within the timestamp granularity: same mtime)
            "prior_saw_older_contents": crng.random() < 0.5, "rewrite_keeps_mtime": crng.random() < 0.3}


def nontrivial(sc):
    return len(sc["files"]) >= 2 or any(a.get("lookup") not in (None, "-") for a in sc["args"]) \
        or any(a.get("glob") and len(a["members"]) >= 2 for a in sc["args"])


def judge(run, rec, oracle, rec_noout=None):
    """-> None or (clause key, text)"""
    sc = run["scenario"]
    if "text" not in oracle:
        if rec["status"] == 0:
            return "cli-succeeds-where-library-raises", f"library pipeline raises {oracle.get('exc')}: {oracle.get('msg')} but the CLI exited 0"
        return None  # both fail: not judged here (C17)
    text = oracle["text"]
    if rec["status"] != 0:
        return "cli-fails-where-library-succeeds", f"CLI exit {rec['status']} ({rec['exc']}) on a fault-free scenario the library handles"
    if sc.get("out"):
        if has_model_code(rec["stdout"]):
            return "stdout-has-code-with-o", "stdout carries model code although -o was given"
        import base64
        if rec.get("out_b64") is None:
            return "o-file-missing", "-o file was not written"
        try:
            ftext = base64.b64decode(rec["out_b64"]).decode("utf-8")
        except UnicodeDecodeError:
            return "o-file-not-utf8", "-o file is not UTF-8"
        head, rest = split_header(ftext)
        if not head:
            return "o-file-no-header", "-o file does not start with the header string"
        if rest != text:
            return "o-file-differs-from-library", "text after the header in the -o file differs from the library result: " + first_diff(rest, text)
        if rec_noout is not None and rec_noout["status"] == 0:
            # (the echoed command is left out: it names -o and the scratch directory, and it spans several lines when
            # an argument does)
            head_b, rest_b = split_header(rec_noout["stdout"])
            if head.split("\n")[:2] != head_b.split("\n")[:2] or rest + "\n" != rest_b:
                return "o-file-differs-from-stdout", "-o file is not the text that is printed without -o (same simulated instant)"
    else:
        head, rest = split_header(rec["stdout"])
        if not head:
            return "stdout-no-header", "stdout does not start with the header string"
        if rest != text + "\n":
            return "stdout-differs-from-library", "code printed after the header differs from the library result: " + first_diff(rest, text + "\n")
    return None


def first_diff(a, b):
    la, lb = a.split("\n"), b.split("\n")
    for i, (x, y) in enumerate(zip(la, lb)):
        if x != y:
            return f"line {i + 1}: {x!r} vs {y!r}"
    return f"{len(la)} vs {len(lb)} lines"


def prior_command(sc):
    """An earlier command of the same process on the same files: default string types, no registry-changing option
    (so it leaves the process-global default registry as it found it), base framework."""
    import copy
    p = copy.deepcopy(sc)
    p["out"] = None
    p["options"] = dict(p["options"], framework="base", str_types=["int", "float", "bool"], preamble=None, meta=False)
    return p


def older_version(fmt, text):
    """Another valid document of the same format and the same outer structure: every object gets one more key."""
    import json

    def walk(v):
        if isinstance(v, dict):
            d = {k: walk(x) for k, x in v.items()}
            d["legacy_field"] = 1
            return d
        if isinstance(v, list):
            return [walk(x) for x in v]
        return v

    if fmt == "ini":
        return text + "\nlegacy_option = 1\n" if "[" in text else text
    try:
        return json.dumps(walk(json.loads(text)), ensure_ascii=False)
    except ValueError:
        return text  # (hand-written YAML that is not JSON: left as it is)


def evaluate(pool, runs):
    specs = []
    for r in runs:
        sp = cli_spec(r["scenario"], clock=r["clock"], glob_seed=r["glob_seed"])
        if r.get("after_prior_command"):
            # the judged command is the SECOND command of its process; the first one reads the same files
            first = cli_spec(prior_command(r["scenario"]), clock=r["clock"], glob_seed=r["glob_seed"])
            first["then"] = {"argv": sp["argv"]}
            first["out_path"] = sp.get("out_path")
            first["files"] = dict(first["files"], **{"out/.keep": {"text": ""}})
            if r.get("prior_saw_older_contents"):
                current = {k: v for k, v in first["files"].items() if k != "out/.keep" and "text" in v}
                first["files"] = dict(first["files"], **{k: dict(v, text=older_version(r["scenario"]["format"], v["text"]))
                                                         for k, v in current.items()})
                first["then"]["files"] = {k: dict(v, keep_mtime=bool(r.get("rewrite_keeps_mtime"))) for k, v in current.items()}
            sp = first
        specs.append(sp)
    skips = Skips(limit=max(5, len(runs) // 100))
    fns = ["simenv:job_cli_sequence" if r.get("after_prior_command") else "simenv:job_cli" for r in runs]
    recs = [None] * len(runs)
    for fn in ("simenv:job_cli", "simenv:job_cli_sequence"):
        idx_ = [k for k, f in enumerate(fns) if f == fn]
        if idx_:
            for k, x in zip(idx_, pool.map(fn, [specs[k] for k in idx_], timeout=120)):
                recs[k] = skips.take(x)
    oracles = [skips.take(x) for x in pool.map("scenario:job_oracle",
                                               [{"scenario": r["scenario"], "events": (rec or {}).get("events")}
                                                for r, rec in zip(runs, recs)], timeout=90)]
    for k in range(len(runs)):
        if recs[k] is None or oracles[k] is None:
            # time limit hit: the scenario is not judged (both sides are made to 'fail' so judge() skips it)
            recs[k] = {"status": 1, "exc": {"type": "TimeLimit", "msg": ""}, "stdout": "", "events": [], "glob_calls": [],
                       "clock": {"reads": 0, "first": None, "last": None}, "argv": [], "out_b64": None}
            oracles[k] = {"exc": "TimeLimit", "msg": ""}
    # same instant, no -o
    # (a command that is the second of its process reads the simulated clock a second time: no same-instant twin for it)
    idx = [i for i, r in enumerate(runs) if r["scenario"].get("out") and recs[i]["exc"] != {"type": "TimeLimit", "msg": ""}
           and not r.get("after_prior_command")]
    no = [unwrap(x) for x in pool.map("simenv:job_cli",
                                      [cli_spec(dict(runs[i]["scenario"], out=None), clock=runs[i]["clock"],
                                                glob_order=recs[i]["glob_calls"]) for i in idx], timeout=90)]
    noout = dict(zip(idx, no))
    return recs, oracles, noout


def judge_any_order(pool, run_, rec, oracle, rec_noout=None):
    """judge(); a mismatch in a scenario with glob arguments is re-judged against other legal concatenation orders
    (name-sorted, reverse, construction order, and every combination of permutations if there are <= 48): files of one
    pattern may be concatenated in ANY order, so an alarm needs every order to disagree.  If the orders cannot be
    enumerated exhaustively and none of the tried ones agrees, the scenario is not judged."""
    from ..scenario import alternative_orders
    v = judge(run_, rec, oracle, rec_noout)
    if v is None:
        return v, False
    sc = run_["scenario"]
    alt = alternative_orders(sc, rec)
    if alt is None:
        return v, False
    res = [unwrap(x) for x in pool.map("scenario:job_oracle", [{"scenario": sc, "glob_perms": c} for c in alt["perms"]], timeout=90)]
    for o in res:
        if judge(run_, rec, o, rec_noout) is None:
            return None, True
    if not alt["exhaustive"]:
        return None, True  # too many orders to enumerate: not judged
    return v, False


def run(ctx):
    rep = ctx.reporter(PROP, LEVEL)
    quick = ctx.tier == "quick"
    n = int((3000 if quick else 40000) * ctx.scale)
    runs = [make_run(ctx.seed, i) for i in range(n)]
    stats = {"both_fail": 0, "ok": 0, "with_o": 0, "glob_ge3": 0, "glob_nonidentity_order": 0, "m_and_l_same_name": 0,
             "two_model_names": 0, "yaml": 0, "ini": 0, "lookup": 0, "duplicate_arg": 0, "same_pattern_twice": 0,
             "second_command_of_its_process": 0, "custom_generator_spelling": 0, "defaults_omitted": 0,
             "no_merge_option": 0, "second_command_after_files_were_rewritten": 0, "pattern_with_8_or_more_files": 0,
             "empty_object_file": 0}
    distinct, samples = set(), []
    clock_reads, clock_min, clock_max = 0, None, None
    evaluations = 0
    with Pool(ctx.jobs, instrument=True) as pool:
        recs, oracles, noout = evaluate(pool, runs)
        evaluations = len(recs) + len(noout)
        for i, (r, rec, orc) in enumerate(zip(runs, recs, oracles)):
            sc = r["scenario"]
            if nontrivial(sc):
                distinct.add(seeds.digest([sc["files"], sc["args"], sc["options"], rec["glob_calls"]]))
            stats["second_command_of_its_process"] += bool(r.get("after_prior_command"))
            stats["yaml"] += sc["format"] == "yaml"
            stats["second_command_after_files_were_rewritten"] += bool(r.get("after_prior_command") and r.get("prior_saw_older_contents"))
            stats["pattern_with_8_or_more_files"] += any(a.get("glob") and len(a["members"]) >= 8 for a in sc["args"])
            stats["empty_object_file"] += any(k.startswith("empty_object_") for k in sc["files"])
            stats["custom_generator_spelling"] += "--code-generator" in r["spec"]["argv"] if "spec" in r else \
                bool(sc["options"].get("custom_spelling"))
            stats["defaults_omitted"] += bool(sc["options"].get("omit_defaults"))
            stats["no_merge_option"] += sc["options"].get("merge") is None
            stats["ini"] += sc["format"] == "ini"
            stats["with_o"] += bool(sc.get("out"))
            stats["lookup"] += any(a.get("lookup") not in (None, "-") for a in sc["args"])
            stats["glob_ge3"] += any(a.get("glob") and len(a["members"]) >= 3 for a in sc["args"])
            stats["glob_nonidentity_order"] += any(g != sorted(g) for g in rec["glob_calls"])
            names_m = {a["name"] for a in sc["args"] if a["flag"] == "-m"}
            names_l = {a["name"] for a in sc["args"] if a["flag"] == "-l"}
            stats["m_and_l_same_name"] += bool(names_m & names_l)
            stats["two_model_names"] += len(names_m | names_l) >= 2
            keys = [(a["name"], a["path"], a.get("lookup")) for a in sc["args"]]
            stats["duplicate_arg"] += len(keys) != len(set(keys))
            pats = [a["path"] for a in sc["args"] if a.get("glob")]
            stats["same_pattern_twice"] += len(pats) != len(set(pats))
            clock_reads += rec["clock"]["reads"]
            for t in (rec["clock"]["first"], rec["clock"]["last"]):
                if t is not None:
                    clock_min = t if clock_min is None else min(clock_min, t)
                    clock_max = t if clock_max is None else max(clock_max, t)
            if "text" not in orc and rec["status"] != 0:
                stats["both_fail"] += 1
            v, alt = judge_any_order(pool, r, rec, orc, noout.get(i))
            stats["accepted_by_other_file_order"] = stats.get("accepted_by_other_file_order", 0) + bool(alt)
            if v is None:
                stats["ok"] += 1
                if len(samples) < 3 and nontrivial(sc) and "text" in orc:
                    samples.append({"argv": rec["argv"], "files": {k: f["text"][:120] for k, f in list(sc["files"].items())[:4]},
                                    "glob_calls": rec["glob_calls"], "clock": rec["clock"],
                                    "events_excerpt": rec["events"][:8]})
                continue
            key, text = v
            if any(k == key for k, _, _ in rep.violations) or len(rep.violations) >= 4:
                continue
            small = minimise(pool, r, key)
            srec, sorc, snoout = evaluate(pool, [small])
            v2 = judge_any_order(pool, small, srec[0], sorc[0], snoout.get(0))[0] or v
            rep.violation(v2[0], {"run": small, "argv": srec[0]["argv"], "cli_status": srec[0]["status"],
                                  "cli_exc": srec[0]["exc"], "cli_stdout": srec[0]["stdout"][:4000],
                                  "oracle": sorc[0], "clause": v2[0]}, v2[1])
        real_checked = 0
        if not quick and not rep.violations:
            real_checked = real_cli_crosscheck(ctx, rep, pool, runs, recs, oracles)
    warn = [k for k in ("glob_ge3", "m_and_l_same_name", "two_model_names", "yaml", "ini", "glob_nonidentity_order") if not stats[k]]
    return rep.finish({
        "evaluations": evaluations,
        "distinct_nontrivial": len(distinct),
        "rule": "scenario = seeded sample set split over files (contiguous chunks; list / single object / wrapped under a "
                "dotted lookup with noise siblings), referenced by -m, -l or one glob pattern, formats json/yaml/ini, "
                "CLI-expressible options; non-trivial = >= 2 files, or a lookup, or a glob with >= 2 matches; distinct by "
                "digest(files, args, options, enumeration order)",
        "samples": samples,
        "reach_probes": stats, "reach_warnings": warn,
        "fault_kinds": {"directory_enumeration_reordered": stats["glob_nonidentity_order"],
                        "clock_reads_served": clock_reads},
        "simulated_time": {"clock_reads": clock_reads, "min_instant": clock_min, "max_instant": clock_max,
                           "note": "the only time in the system is one clock read for the header; span = range of simulated instants served"},
        "traces_validated_against_impl": real_checked,
    }, assumptions=[
        "the reference model encodes the documented meaning of each option (README CLI section); option domain restricted "
        "to framework, structure, merge, --dkr (anchored), --dkf, --max-strings-literals, --strings-converters, "
        "--no-unidecode, --datetime, --disable-str-serializable-types (int/float/bool), --preamble, meta=true",
        "files of one pattern are taken in the order the interposed Path.open saw them",
    ])


def minimise(pool, run_, key):
    """Shrink the scenario (drop args / files) while the same clause fails."""
    import copy
    budget = shrink.Budget(120)
    cur = copy.deepcopy(run_)

    def fails(cand):
        try:
            recs, orcs, noout = evaluate(pool, [cand])
            v = judge_any_order(pool, cand, recs[0], orcs[0], noout.get(0))[0]
            return v is not None and v[0] == key
        except Exception:  # noqa
            return False

    changed = True
    while changed and budget.left > 0:
        changed = False
        sc = cur["scenario"]
        for ai in range(len(sc["args"])):
            if len(sc["args"]) <= 1:
                break
            cand = copy.deepcopy(cur)
            del cand["scenario"]["args"][ai]
            if budget.take() and fails(cand):
                cur, changed = cand, True
                break
        if changed:
            continue
        for a in sc["args"]:
            if a.get("glob") and len(a["members"]) > 1:
                for m in list(a["members"]):
                    cand = copy.deepcopy(cur)
                    for ca in cand["scenario"]["args"]:
                        if ca.get("glob") and m in ca["members"]:
                            ca["members"].remove(m)
                    cand["scenario"]["files"].pop(m, None)
                    if budget.take() and fails(cand):
                        cur, changed = cand, True
                        break
            if changed:
                break
        if changed:
            continue
        from ..shrink import DEFAULT_OPTIONS
        for k, dv in DEFAULT_OPTIONS.items():
            if sc["options"].get(k) != dv:
                cand = copy.deepcopy(cur)
                cand["scenario"]["options"][k] = dv
                if budget.take() and fails(cand):
                    cur, changed = cand, True
                    break
    cur = shrink_file_contents(cur, fails, shrink.Budget(200))
    used = {a["path"] for a in cur["scenario"]["args"] if not a.get("glob")} | \
           {m for a in cur["scenario"]["args"] if a.get("glob") for m in a["members"]}
    cur["scenario"]["files"] = {k: v for k, v in cur["scenario"]["files"].items() if k in used}
    return cur


def shrink_file_contents(cur, fails, budget):
    """Structural shrinking of the documents inside the files (json / yaml scenarios)."""
    import copy
    import json
    from ..shrink import _del, _get, _paths, _set, _simpler
    if cur["scenario"]["format"] == "ini":
        return cur
    progress = True
    while progress and budget.left > 0:
        progress = False
        for rel in list(cur["scenario"]["files"]):
            try:
                doc = json.loads(cur["scenario"]["files"][rel]["text"])
            except ValueError:
                continue
            cands = []
            for path in sorted((p for p in _paths(doc) if p), key=len):
                d = copy.deepcopy(doc)
                try:
                    _del(d, path)
                    cands.append(d)
                except (KeyError, IndexError, TypeError):
                    pass
            for path in sorted((p for p in _paths(doc) if p), key=len):
                for sv in _simpler(_get(doc, path)):
                    d = copy.deepcopy(doc)
                    _set(d, path, sv)
                    cands.append(d)
            for d in cands:
                if not budget.take():
                    return cur
                cand = copy.deepcopy(cur)
                cand["scenario"]["files"][rel] = {"text": json.dumps(d, ensure_ascii=False)}
                if fails(cand):
                    cur, progress = cand, True
                    break
            if progress:
                break
    return cur


def real_cli_crosscheck(ctx, rep, pool, runs, recs, oracles):
    """Thorough: repeat sampled scenarios with the real CLI in a subprocess (real directory order, real clock)."""
    from concurrent.futures import ThreadPoolExecutor
    from .. import loader
    n = int(400 * ctx.scale)
    picks = [i for i, (r, o) in enumerate(zip(runs, oracles)) if "text" in o and not r["scenario"].get("out")][:n]

    def one(i):
        sc = runs[i]["scenario"]
        scratch = tempfile.mkdtemp(prefix="j2m-c16-", dir="/dev/shm" if os.path.isdir("/dev/shm") else None)
        try:
            for rel, f in sc["files"].items():
                p = os.path.join(scratch, rel)
                os.makedirs(os.path.dirname(p), exist_ok=True)
                with open(p, "w", encoding="utf-8") as fh:
                    fh.write(f["text"])
            argv = [a.replace("{DIR}", scratch) for a in cli_spec(sc)["argv"]]
            env = dict(os.environ, PYTHONPATH=loader.repo_dir(), PYTHONIOENCODING="utf-8")
            env.pop("TRAVIS", None)
            env.pop("FORCE_COVERAGE", None)
            p = subprocess.run([PYTHON, "-m", "json_to_models", *argv], capture_output=True, text=True, env=env,
                               timeout=180, cwd=scratch, encoding="utf-8")
            return i, argv, p.returncode, p.stdout, p.stderr[-1000:]
        finally:
            shutil.rmtree(scratch, ignore_errors=True)

    with ThreadPoolExecutor(max_workers=max(2, ctx.jobs)) as ex:
        results = list(ex.map(one, picks))
    checked = 0
    for i, argv, rc, stdout, stderr in results:
        sc = runs[i]["scenario"]
        head, rest = split_header(stdout)
        globs = [a for a in sc["args"] if a.get("glob")]
        ok = False
        if rc == 0:
            if not globs:
                ok = rest == oracles[i]["text"] + "\n"
            elif len(globs) == 1 and len(globs[0]["members"]) <= 4:
                perms = list(itertools.permutations(range(len(globs[0]["members"]))))
                res = [unwrap(x) for x in pool.map("scenario:job_oracle",
                                                   [{"scenario": sc, "glob_perms": [list(pm)]} for pm in perms])]
                ok = any("text" in o and rest == o["text"] + "\n" for o in res)
            else:
                continue
        checked += 1
        if not ok:
            rep.violation("real-cli-differs-from-library", {
                "run": runs[i], "argv": argv, "status": rc, "stdout": stdout[:4000],
                "stderr": stderr, "oracle": oracles[i], "clause": "real subprocess output after header == library text",
            }, f"real CLI subprocess (exit {rc}) differs from the library result")
            break
    return checked


def replay(ctx, payload):
    with Pool(2, instrument=True) as pool:
        r = payload["run"]
        recs, orcs, noout = evaluate(pool, [r])
        v = judge_any_order(pool, r, recs[0], orcs[0], noout.get(0))[0]
        if v:
            return True, v[1]
    return False, "CLI agrees with the reference model"
