"""C14 - a generation is independent of what the process did before.

Run = a history: a seeded sequence of 2..6 operations executed in ONE forked child against slots holding registries:
  GEN(slot, samples, inference options)        inference + merge + names into a slot
  RENDER(slot, framework, layout, kwargs)      generate_code on the slot's registry (nested only for tree-shaped graphs)
  GEN!/RENDER!(..., crash_at=k)                the same with an injected crash at line event k
  CLI(argv)                                    in-process CLI run with --datetime / --disable-str-serializable-types
                                               (perturbs the process-global default string-type registry)
  CLIJ(spec)                                   a JUDGED in-process CLI command; the CLIJ commands of a history share one
                                               directory (same paths, files rewritten in between) and their options
  GEN with sreg_id / gen_id                    the caller re-uses one StringSerializableRegistry (types removed in
                                               between) / one MetadataGenerator and comparator list for several GENs
Oracle = for every non-crashing GEN/RENDER of the history, the same call in a PRISTINE fork after only its dependency
chain (the GEN of its slot).  Byte equality of outcomes.
"""
import copy

from .. import seeds, shrink
from ..pool import Pool, Skips, unwrap
from ..workload import ALL_FRAMEWORKS, gen_workload

PROP = "C14"
LEVEL = "exploration"
# EXTEND = processing more samples into a registry that has already been rendered.  Tried and switched off: on the
# unchanged tree an intermediate render rewrites class names in the registry (by design, the property only asks that this
# conversion be idempotent), so a later merge sees other names ('Таблица' -> 'Tablitsa').  That is a dependence on the
# explicitly passed registry's state, not on process history; the property's quantifier speaks of generation and render
# calls only.  Judging EXTEND would demand more than the property states (DESIGN.md 12.6).
ENABLE_EXTEND = False


# ---- worker side ------------------------------------------------------------------------------------------------------
def _dump_registry(reg):
    lines = []
    for m in reg.models:
        lines.append(f"{m.index} {m.name!r} generated={m.is_name_generated} :: "
                     + "; ".join(f"{k!r}: {v}" for k, v in m.type.items()))
    return "\n".join(lines)


def _is_tree(reg):
    parent_of = {}
    for m in reg.models:
        parents = {p.parent.index for p in m.pointers if p.parent is not None}
        roots = [p for p in m.pointers if p.parent is None]
        if parents and roots:
            return False
        if len(parents) > 1 or m.index in parents:
            return False
        parent_of[m.index] = next(iter(parents)) if parents else None
    for ix in parent_of:
        seen, cur = set(), ix
        while cur is not None:
            if cur in seen:
                return False
            seen.add(cur)
            cur = parent_of.get(cur)
    return True


def job_history(args):
    from ..crash import CrashTracer
    from ..pipeline import infer, outcome, render, set_schedule
    from ..simenv import SimEnv
    set_schedule(None)
    slots = {}
    outs = []
    shared_kwargs = {}
    shared_expect = {}
    shared_sregs = {}
    shared_gens = {}
    probes = {"nonempty_mapping": 0, "crash_fired": 0, "crash_in_generate_code": 0}
    cli_env = {}
    try:
        return _job_history(args, slots, outs, shared_kwargs, shared_expect, shared_sregs, shared_gens, probes, cli_env)
    finally:
        if cli_env.get("env") is not None:
            cli_env["env"].cleanup()


def _job_history(args, slots, outs, shared_kwargs, shared_expect, shared_sregs, shared_gens, probes, cli_env):
    from ..crash import CrashTracer
    from ..pipeline import infer, outcome, render
    from ..simenv import SimEnv
    for op in args["ops"]:
        kind = op["op"]
        if kind == "CLIJ":
            # a JUDGED in-process CLI command; all commands of a history work in ONE directory (same paths, the files
            # are rewritten in between).  Outcome = exit status + text after the header (scratch path masked).
            from ..scenario import split_header
            from ..simenv import Events, FaultPlan
            env = cli_env.get("env")
            if env is None:
                env = cli_env["env"] = SimEnv(op["spec"])
                rec = env.run()
            else:
                env.apply_files(op["spec"]["files"])
                env.spec = dict(op["spec"], faults=None, crash_at=None)
                env.events = Events()
                env.plan = FaultPlan(None, env.events)
                env.glob_calls = []
                rec = env.run(reuse_dir=True)
            if rec["status"] == 0:
                outs.append({"text": split_header(rec["stdout"])[1].replace(env.dir, "<DIR>")})
            else:
                outs.append({"exc": (rec["exc"] or {}).get("type"), "msg": str((rec["exc"] or {}).get("msg", "")).replace(env.dir, "<DIR>")[:200],
                             "status": rec["status"]})
            probes["cli_commands_judged"] = probes.get("cli_commands_judged", 0) + 1
            continue
        if kind == "CLI":
            env = SimEnv(op["spec"])
            try:
                rec = env.run()
                outs.append({"cli_status": rec["status"]})
            finally:
                env.cleanup()
            continue
        if kind == "GEN":
            def go(op=op):
                sreg = None
                if op.get("sreg_id") is not None:
                    # the caller keeps ONE StringSerializableRegistry object for several generations and switches types
                    # off in it between them; a pristine process does the same to a fresh object
                    from ..pipeline import build_str_registry, narrow_str_registry
                    if op["sreg_id"] not in shared_sregs:
                        shared_sregs[op["sreg_id"]] = build_str_registry(op["sreg_base"])
                    sreg = narrow_str_registry(shared_sregs[op["sreg_id"]], op["sreg_base"], op["options"]["str_types"])
                    probes["shared_string_registry_generations"] = probes.get("shared_string_registry_generations", 0) + 1
                gen_obj = cmps_obj = None
                if op.get("gen_id") is not None:
                    # ... and ONE MetadataGenerator / ONE list of comparator objects for all of them
                    from ..pipeline import make_cmps
                    gen_obj = shared_gens.get(op["gen_id"])
                    if "cmps" not in shared_gens:
                        shared_gens["cmps"] = make_cmps(op["options"].get("merge", ["percent", "number"]))
                    cmps_obj = shared_gens["cmps"]
                gen, reg = infer(op["models"], op["options"], str_registry_obj=sreg, gen_obj=gen_obj, cmps_obj=cmps_obj)
                if op.get("gen_id") is not None:
                    shared_gens[op["gen_id"]] = gen
                    probes["shared_generator_generations"] = probes.get("shared_generator_generations", 0) + 1
                slots[op["slot"]] = {"reg": reg, "gen": gen, "tree": _is_tree(reg)}
                return _dump_registry(reg)
        elif kind == "EXTEND":
            slot = slots.get(op["slot"])
            if slot is None:
                outs.append({"skipped": "slot holds no registry"})
                continue

            def go(op=op, slot=slot):
                # more samples processed into the SAME registry with the same generator (what the CLI does for every
                # further model name), then merged and named again
                gen, reg = slot["gen"], slot["reg"]
                for name, samples in op["models"]:
                    reg.process_meta_data(gen.generate(*samples), name)
                reg.merge_models(gen)
                reg.generate_names()
                slot["tree"] = _is_tree(reg)
                return _dump_registry(reg)
        else:
            slot = slots.get(op["slot"])
            if slot is None:
                outs.append({"skipped": "slot holds no registry"})
                continue

            forced = bool(op.get("force_nested")) and not slot["tree"] and op["structure"] == "nested"

            kwargs_obj = None
            if op.get("kw_id") is not None:
                # the caller re-uses ONE class_generator_kwargs dict object for several calls (the same content every
                # time); a pristine process builds it fresh.
                from ..pipeline import gen_kwargs
                key = op["kw_id"]
                fresh = gen_kwargs(dict(op["options"], framework="attrs"))
                if key not in shared_kwargs:
                    # one dict for every framework, 'meta' included when set: generators that do not accept an option
                    # raise TypeError (an outcome like any other, the same in a pristine process)
                    shared_kwargs[key] = fresh
                    shared_expect[key] = dict(fresh)
                elif shared_expect[key] != fresh:
                    raise RuntimeError("harness: operations sharing a kwargs object must have identical options")
                kwargs_obj = shared_kwargs[key]

            def go(op=op, slot=slot, forced=forced, kwargs_obj=kwargs_obj):
                structure = op["structure"] if (slot["tree"] or op["structure"] == "flat" or forced) else "flat"
                return render(slot["reg"], op["options"], structure, op["framework"], kwargs_obj=kwargs_obj)
        if op.get("crash_at") is not None:
            tr = CrashTracer(op["crash_at"], watch=("generate_code",), relative_to=op.get("crash_in"))
            with tr:
                o = outcome(go)
            if tr.fired:
                probes["crash_fired"] += 1
                if "generate_code" in tr.marks and (op.get("crash_in") or op["crash_at"] > tr.marks["generate_code"]):
                    probes["crash_in_generate_code"] += 1
            o["lines"] = tr.count
        else:
            o = outcome(go)
        if kind == "RENDER" and forced:
            # nested layout of a non-tree graph is outside the judged domain: this call only perturbs the process
            o = {"perturbation": True, "kind": next(iter(o))}
            probes["forced_nested_perturbation"] = probes.get("forced_nested_perturbation", 0) + 1
        outs.append(o)
    return {"outcomes": outs, "probes": probes}


# ---- parent side ------------------------------------------------------------------------------------------------------
INFER_KEYS = ("merge", "dict_keys_regex", "dict_keys_fields", "str_types")


def make_history(seed, i, max_ops=4):
    rng = seeds.derive(seed, PROP, i, "history")
    n_ops = rng.randint(2, max_ops)
    n_slots = rng.choice([1, 1, 2, 2, 3])
    slot_w = {}
    slot_fixed = {}
    # a second slot sometimes shares (non-ASCII) field names with the first but differs in the unicode option
    # (stale label caches); such histories render both slots
    twin = n_slots >= 2 and rng.random() < 0.4
    # targeted order: a crash inside generate_code of a nested render of a graph with shared sub-models (non-empty
    # absolute-reference mapping, outside the judged domain -> perturbation), then judged renders of the same slot
    crash_then_render = not twin and rng.random() < 0.15
    for s in range(n_slots):
        fixed = {"key_styles": ["unicode", "snake", "odd"]} if twin else {}
        if crash_then_render and s == 0:
            fixed = dict(structures=["nested"], p_nested=0.5, p_list_obj=0.25, n_shapes=rng.randint(3, 5), depth=3,
                         p_variant=0.0, n_models=1, p_missing=0.0, width=rng.randint(2, 4))
        rich = not fixed and rng.random() < 0.15
        if rich:
            # a slot rich in containers whose objects become Dict fields (every kind of nested typing code is rendered)
            fixed = dict(p_container=0.6, container_kinds=["dict_like", "dict_mixed_keys", "list_str", "list_mixed", "dict_empty"],
                         scalar_kinds=["str_plain", "str_enum", "int", "str_int"], bulk=0, chain=False)
        w = gen_workload(seeds.derive(seed, PROP, i, "slot", s), **fixed)
        if rich:
            w["options"]["dict_keys_regex"] = [r"\d+", r"[a-h]\d", r"[a-z]+"]
        slot_w[s] = w
        slot_fixed[s] = fixed
    if twin:
        slot_w[1] = copy.deepcopy(slot_w[0])
        slot_w[1]["options"]["convert_unicode"] = not slot_w[0]["options"]["convert_unicode"]
    ops = []
    generated = []
    # some histories re-use one options object (same content) for all their renders
    share_kwargs = rng.random() < 0.3
    shared_render_options = None

    def gen_op(s, crash=False):
        w = slot_w[s]
        op = {"op": "GEN", "slot": s, "models": w["models"], "options": {k: w["options"][k] for k in INFER_KEYS}}
        if crash:
            op["crash_at"] = rng.choice([1, 5, 30, 100, 300, 1000, 3000])
        return op

    def extend_op(s):
        # more samples of the same shapes under other model names: they merge with what the registry already holds
        w2 = gen_workload(seeds.derive(seed, PROP, i, "slot", s), **(slot_fixed.get(s) or {}))
        models = [[name + "2", samples] for name, samples in w2["models"]]
        return {"op": "EXTEND", "slot": s, "models": models}

    def render_op(s, crash=False):
        w = slot_w[s]
        o = {"convert_unicode": w["options"]["convert_unicode"],
             "max_literals": rng.choice([0, 2, 10, 15]), "post_init_converters": rng.random() < 0.3,
             "meta": rng.random() < 0.3, "preamble": rng.choice([None, None, "# p"])}
        if rng.random() < 0.25:
            # explicitly passed per-call style overrides (they must not outlive the call)
            o["types_style"] = rng.choice([{"StringLiteral": {"use_literals": False}},
                                           {"StringLiteral": {"use_literals": True}},
                                           {"StringSerializable": {"use_actual_type": False}},
                                           {"StringSerializable": {"use_actual_type": True}}])
        op = {"op": "RENDER", "slot": s, "framework": rng.choice(ALL_FRAMEWORKS), "structure": rng.choice(["flat", "nested"]),
              "options": o}
        if share_kwargs:
            nonlocal shared_render_options
            if shared_render_options is None:
                shared_render_options = {k: v for k, v in o.items() if k != "types_style"}
            op["options"] = dict(shared_render_options, convert_unicode=o["convert_unicode"], preamble=o["preamble"])
            op["kw_id"] = int(o["convert_unicode"])
        if crash:
            op["crash_at"] = rng.choice([1, 3, 10, 30, 60, 100, 200, 400, 800, 1500, 4000])
        if op["structure"] == "nested" and rng.random() < 0.5:
            op["force_nested"] = True  # on a non-tree slot: un-judged perturbation (see job_history)
        return op

    def cli_op():
        # an in-process CLI command as a perturbation: any option that might leave something behind in the process
        argv = ["-m", "P", "{DIR}/p.json"] + rng.choice([["--datetime"], ["--disable-str-serializable-types", "float"],
                                                        ["--datetime", "--disable-str-serializable-types", "int", "bool"],
                                                        ["--disable-str-serializable-types", "int", "float", "bool"],
                                                        ["--max-strings-literals", "50"], ["--max-strings-literals", "0"],
                                                        ["--max-strings-literals", "30", "-f", "pydantic", "-s", "nested"],
                                                        ["--merge", "exact", "--dkr", "\\d+", "--dkf", "a"],
                                                        ["-f", "attrs", "--strings-converters", "--no-unidecode"],
                                                        ["-f", "dataclasses", "--code-generator-kwargs", "meta=true",
                                                         "--preamble", "# cli preamble"]])
        doc = [{"a": "1", "b": "2020-01-02", "c": "true", "tag": "v%02d" % k, "größe": {"1": k}} for k in range(rng.choice([1, 3, 20]))]
        import json as _json
        return {"op": "CLI", "spec": {"files": {"p.json": {"text": _json.dumps(doc)}}, "argv": argv}}

    # first op is a GEN so that there is something to work on
    ops.append(gen_op(0))
    generated.append(0)
    if crash_then_render:
        bad = render_op(0, crash=True)
        bad.update(structure="nested", force_nested=True, crash_in="generate_code",
                   crash_at=rng.choice([1, 2, 5, 10, 20, 40, 80, 150, 300, 600]))
        ops += [bad, dict(render_op(0), structure="flat")]
    if not twin and not crash_then_render and rng.random() < 0.12:
        # targeted order: a CLI command with an option that touches process-global settings, then a generation whose
        # samples are sensitive to exactly that kind of setting (explicit registries and options as always)
        kind = rng.choice(["literals", "datetime", "disable"])
        sens = {"literals": dict(scalar_kinds=["str_enum", "str_enum", "int"], samples=rng.randint(20, 40), p_hetero=0.5, width=3),
                "datetime": dict(scalar_kinds=["str_date", "str_datetime", "str_time", "str_plain"], p_hetero=0.5, width=4),
                "disable": dict(scalar_kinds=["str_int", "str_float", "str_bool", "int"], p_hetero=0.5, width=4)}[kind]
        cli_argv = {"literals": ["--max-strings-literals", rng.choice(["20", "50", "100"])], "datetime": ["--datetime"],
                    "disable": ["--disable-str-serializable-types", rng.choice(["int", "float", "bool"])]}[kind]
        s_new = n_slots
        slot_w[s_new] = gen_workload(seeds.derive(seed, PROP, i, "sensitive"), **dict(sens, p_null=0.0, p_missing=0.0, n_models=1,
                                                                                 depth=1, bulk=0, chain=False))
        c = cli_op()
        c["spec"]["argv"] = ["-m", "P", "{DIR}/p.json"] + cli_argv
        r = render_op(s_new)
        r.pop("kw_id", None)  # its options differ from the shared ones: it must not use the shared kwargs object
        r["options"] = dict(r["options"], max_literals=rng.choice([10, 20, 50]))
        ops += [c, gen_op(s_new), r]
        generated.append(s_new)
    if not twin and not crash_then_render and rng.random() < 0.1:
        # targeted order: ONE string-type registry object used by two generations over samples that share string values,
        # with types removed from it in between
        base = ["int", "float", "bool", "date", "time", "datetime"] if rng.random() < 0.5 else ["int", "float", "bool"]
        sens = dict(scalar_kinds=["str_int", "str_float", "str_bool", "str_date", "str_time", "int"], p_hetero=0.4, width=4,
                    p_null=0.0, p_missing=0.1, n_models=1, depth=1, bulk=0, chain=False)
        s1 = max(slot_w) + 1
        s2 = s1 + 1
        slot_w[s1] = gen_workload(seeds.derive(seed, PROP, i, "sreg"), **sens)
        slot_w[s2] = copy.deepcopy(slot_w[s1])
        first = [n for n in base if rng.random() < 0.85] or list(base)
        second = [n for n in first if rng.random() < 0.6]
        g1, g2 = gen_op(s1), gen_op(s2)
        g1["options"] = dict(g1["options"], str_types=first)
        g2["options"] = dict(g2["options"], str_types=second)
        for g in (g1, g2):
            g.update(sreg_id=0, sreg_base=base)
        if rng.random() < 0.5:
            # the same MetadataGenerator and comparator objects as well (all other inference options are equal: both
            # slots hold copies of one workload)
            g1["gen_id"] = g2["gen_id"] = 0
        tail = []
        for sx in (s2, s1):
            r = render_op(sx)
            r.pop("kw_id", None)
            tail.append(r)
        ops += [g1, g2, *tail[:rng.randint(1, 2)]]
        generated += [s1, s2]
    has_clij = False
    if not twin and not crash_then_render and rng.random() < 0.06 and not any(o["op"] == "CLI" for o in ops):
        # targeted order: two JUDGED in-process CLI commands on the same paths; the files are rewritten in between (the
        # second command must mean what it means in a fresh process: nothing remembered per path).  Both commands have
        # the same options and such a history holds no other CLI command: what --datetime / --disable-... do to the
        # process-global default registry is documented CLI behaviour (the property's "state" entry), not judged here
        has_clij = True
        from ..scenario import cli_spec, gen_scenario
        from .c16 import older_version
        sc = gen_scenario(seeds.derive(seed, PROP, i, "clij"), want_out=False)
        now = cli_spec(sc)
        before = dict(now, files={k: (dict(v, text=older_version(sc["format"], v["text"])) if "text" in v else v)
                                  for k, v in now["files"].items()})
        ops += [{"op": "CLIJ", "spec": before}, {"op": "CLIJ", "spec": now}]
    if twin and n_ops >= 4:
        ops += [render_op(0), gen_op(1), render_op(1)]
        generated.append(1)
    while len(ops) < n_ops:
        r = rng.random()
        if r < 0.12 and not has_clij:
            ops.append(cli_op())
        elif r < 0.30:
            s = rng.randrange(n_slots)
            ops.append(gen_op(s, crash=rng.random() < 0.3))
            if s not in generated:
                generated.append(s)
        elif ENABLE_EXTEND and r < 0.42 and any(o["op"] == "RENDER" for o in ops):
            # extend a registry that has already been rendered (disabled, see ENABLE_EXTEND)
            s = rng.choice([o["slot"] for o in ops if o["op"] == "RENDER"])
            ops.append(extend_op(s))
            if len(ops) < n_ops:
                ops.append(render_op(s))
        else:
            s = rng.choice(generated)
            ops.append(render_op(s, crash=rng.random() < 0.2))
    if rng.random() < 0.35:
        # probe: a tiny generation (one model, a few plain required fields of the kinds used before) rendered with a
        # framework used earlier in the history - anything an earlier call left behind (imports, styles, names) shows
        renders = [o for o in ops if o["op"] == "RENDER"]
        kinds = [k for k in ("int", "str_int", "str_float", "str_plain", "str_bool", "bool", "float")]
        sp = max(slot_w) + 10
        probe_kinds = rng.sample(kinds, k=rng.randint(1, 3))
        if rng.random() < 0.4:
            probe_kinds = ["str_plain"] + probe_kinds[:rng.randint(0, 1)]  # (plain literals: the smallest import header)
        probe_w = gen_workload(seeds.derive(seed, PROP, i, "probe"), scalar_kinds=probe_kinds,
                               n_shapes=1, width=rng.randint(1, 3), depth=0, n_models=1, samples=rng.randint(1, 3),
                               p_null=0.0, p_missing=0.0, p_hetero=0.0, p_container=0.0, p_self=0.0, bulk=0, chain=False,
                               p_numeric_twin=0.0, p_collide=0.0, key_styles=["snake"])
        slot_w[sp] = probe_w
        r = render_op(sp)
        r.pop("kw_id", None)
        r["options"] = dict(r["options"])
        r.pop("types_style", None)
        r["options"].pop("types_style", None)
        if renders:
            r["framework"] = rng.choice(renders)["framework"]
        r["structure"] = "flat"
        # same explicit string-type registry as an earlier generation: the probe differs from it only in its samples
        g = gen_op(sp)
        first_gen = next(o for o in ops if o["op"] == "GEN")
        g["options"] = dict(g["options"], str_types=first_gen["options"]["str_types"], dict_keys_regex=[], dict_keys_fields=[])
        ops += [g, r]
    return ops


def judged_indices(ops, outcomes):
    """Ops whose outcome is compared with a pristine run: non-crashing GEN / EXTEND / RENDER.  The dependency chain of
    an op is the successful GEN of its slot plus the successful EXTENDs of that slot before it (no renders)."""
    out = []
    chain = {}
    poisoned = set()  # slots whose registry was left half-extended by a failing / crashing EXTEND
    for i, (op, o) in enumerate(zip(ops, outcomes)):
        if op["op"] == "CLIJ":
            if "text" in o or "exc" in o:
                out.append((i, []))
            continue
        if op["op"] == "GEN":
            if "crash" not in o:
                out.append((i, []))
            if "text" in o:
                chain[op["slot"]] = [i]
                poisoned.discard(op["slot"])
        elif op["op"] == "EXTEND":
            if "skipped" in o or op["slot"] not in chain or op["slot"] in poisoned:
                continue
            if "text" in o:
                out.append((i, list(chain[op["slot"]])))
                chain[op["slot"]].append(i)
            else:
                poisoned.add(op["slot"])  # a failed extension leaves the registry in an undefined state: stop judging it
        elif op["op"] == "RENDER":
            if "skipped" in o or "perturbation" in o or op["slot"] in poisoned:
                continue
            if "crash" not in o and op["slot"] in chain:
                out.append((i, list(chain[op["slot"]])))
    return out


def strip_crash(op):
    op = dict(op)
    op.pop("crash_at", None)
    return op


def oracle_ops(ops, i, dep):
    return [strip_crash(ops[j]) for j in (dep or [])] + [strip_crash(ops[i])]


def nontrivial(ops, i, dep, outcomes):
    """Judged op i is preceded by another op on the same slot, by a crash, or by a CLI perturbation."""
    for j in range(i):
        if j in (dep or []):
            continue
        if ops[j]["op"] in ("CLI", "CLIJ") or "crash" in outcomes[j]:
            return True
        if ops[j].get("slot") == ops[i].get("slot"):
            return True
    return False


def clean(o):
    o = dict(o)
    o.pop("lines", None)
    return o


def evaluate(pool, histories):
    skips = Skips(limit=max(5, len(histories) // 100))
    res = [skips.take(r) for r in pool.map("checks.c14:job_history", [{"ops": h} for h in histories], timeout=90)]
    jobs, idx = [], []
    for hi, (h, r) in enumerate(zip(histories, res)):
        if r is None:
            res[hi] = {"outcomes": [{"skipped": "time limit"} for _ in h],
                       "probes": {"crash_fired": 0, "crash_in_generate_code": 0}}
            continue  # the history ran into the job time limit: not judged
        for i, dep in judged_indices(h, r["outcomes"]):
            jobs.append({"ops": oracle_ops(h, i, dep)})
            idx.append((hi, i, dep))
    ores = [skips.take(r) for r in pool.map("checks.c14:job_history", jobs, timeout=90)]
    verdicts = []
    for (hi, i, dep), o in zip(idx, ores):
        if o is None:
            continue
        got = clean(res[hi]["outcomes"][i])
        want = clean(o["outcomes"][-1])
        verdicts.append((hi, i, dep, got, want))
    return res, verdicts


def describe(op, got, want):
    def d(o):
        if "text" in o:
            return f"text[{len(o['text'])}]"
        return str(o)[:160]
    what = f"{op['op']}(slot {op.get('slot')}" + (f", {op['framework']}, {op['structure']}" if op["op"] == "RENDER" else "") + ")"
    s = f"{what}: in history -> {d(got)} ; pristine -> {d(want)}"
    if "text" in got and "text" in want:
        la, lb = got["text"].split("\n"), want["text"].split("\n")
        for k, (x, y) in enumerate(zip(la, lb)):
            if x != y:
                s += f" ; first difference line {k + 1}: {x!r} vs {y!r}"
                break
    return s


def key_of(ops, i, got, want):
    prev = sorted({("crash" if "crash_at" in o else "") + o["op"] for o in ops[:i]})
    kind = "raises" if "exc" in got and "exc" not in want else ("differs" if "text" in got and "text" in want else "outcome-kind")
    return f"{ops[i]['op']}-{kind}-after-" + "+".join(prev)


def minimise(pool, ops, i):
    """ddmin the operations before the failing one (keeping its GEN), then shrink the slot's samples."""
    budget = shrink.Budget(150)
    target = ops[i]
    before = list(range(i))

    def build(keep):
        return [ops[j] for j in keep] + [target]

    def fails(hist):
        try:
            res, verdicts = evaluate(pool, [hist])
        except Exception:  # noqa
            return False
        return any(ix == len(hist) - 1 and got != want for _, ix, _, got, want in verdicts)

    keep = shrink.ddmin(before, lambda sub: fails(build(sorted(sub))), budget)  # (a history without the slot's GEN simply
    #                                                                             has nothing to judge -> "does not fail")
    hist = build(sorted(keep))
    # shrink the samples of the failing op's slot
    slot = target.get("slot")
    gens = [k for k, o in enumerate(hist) if o["op"] == "GEN" and o["slot"] == slot]
    if gens and budget.left > 20:
        g = gens[-1]

        def test_batch(cands):
            out = []
            for c in cands:
                h2 = copy.deepcopy(hist)
                for k in gens:
                    h2[k]["models"] = c["models"]
                out.append(fails(h2))
            return out

        small = shrink.shrink_workload({"models": hist[g]["models"], "options": {}}, test_batch,
                                       shrink.Budget(min(120, budget.left)), batch=4)
        for k in gens:
            hist[k] = dict(hist[k], models=small["models"])
    return hist


def run(ctx):
    rep = ctx.reporter(PROP, LEVEL)
    quick = ctx.tier == "quick"
    n = int((4500 if quick else 60000) * ctx.scale)
    max_ops = 4 if quick else 6
    histories = [make_history(ctx.seed, i, max_ops=(4 if (quick or i % 3) else 6)) for i in range(n)]
    distinct, samples = set(), []
    stats = {"judged_ops": 0, "histories_with_crash": 0, "histories_with_cli": 0, "render_twice_same_slot": 0,
             "crash_fired": 0, "crash_in_generate_code": 0, "two_frameworks_same_slot": 0,
             "forced_nested_perturbation": 0, "twin_slots_unicode_flip": 0,
             "op_kinds": {}}
    with Pool(ctx.jobs, instrument=True) as pool:
        res, verdicts = evaluate(pool, histories)
        evaluations = len(histories) + len(verdicts)
        for h, r in zip(histories, res):
            stats["histories_with_crash"] += any("crash" in o for o in r["outcomes"])
            stats["histories_with_cli"] += any(o["op"] == "CLI" for o in h)
            stats["crash_fired"] += r["probes"]["crash_fired"]
            stats["crash_in_generate_code"] += r["probes"]["crash_in_generate_code"]
            stats["forced_nested_perturbation"] += r["probes"].get("forced_nested_perturbation", 0)
            stats["shared_string_registry_generations"] = stats.get("shared_string_registry_generations", 0) + \
                r["probes"].get("shared_string_registry_generations", 0)
            stats["shared_generator_generations"] = stats.get("shared_generator_generations", 0) + \
                r["probes"].get("shared_generator_generations", 0)
            stats["cli_commands_judged"] = stats.get("cli_commands_judged", 0) + r["probes"].get("cli_commands_judged", 0)
            gens = [o for o in h if o["op"] == "GEN"]
            stats["twin_slots_unicode_flip"] += any(a["models"] == b["models"] and a["slot"] != b["slot"] for a in gens for b in gens)
            rs = [o for o in h if o["op"] == "RENDER"]
            stats["render_twice_same_slot"] += len({o["slot"] for o in rs}) < len(rs)
            stats["two_frameworks_same_slot"] += any(a["slot"] == b["slot"] and a["framework"] != b["framework"]
                                                     for a in rs for b in rs)
            for o in h:
                k = ("crash " if "crash_at" in o else "") + o["op"]
                stats["op_kinds"][k] = stats["op_kinds"].get(k, 0) + 1
        for hi, i, dep, got, want in verdicts:
            stats["judged_ops"] += 1
            h = histories[hi]
            if nontrivial(h, i, dep, res[hi]["outcomes"]):
                distinct.add(seeds.digest([h[:i + 1]]))
            if len(samples) < 3 and i >= 2:
                samples.append({"history": [{k: (v if k != "models" else str(v)[:120]) for k, v in o.items() if k != "spec"}
                                            for o in h], "judged_op": i,
                                "outcome_kinds": [next(iter(o)) for o in res[hi]["outcomes"]]})
            if got != want:
                key = key_of(h, i, got, want)
                if any(k == key for k, _, _ in rep.violations) or key in rep.known_seen or len(rep.violations) >= 4:
                    continue
                small = minimise(pool, h, i)
                res2, v2 = evaluate(pool, [small])
                fail2 = [(ix, g, w) for _, ix, _, g, w in v2 if g != w]
                if fail2:
                    ix, g, w = fail2[-1]
                    hist, text = small, describe(small[ix], g, w)
                    got2, want2 = g, w
                else:
                    hist, text, ix, got2, want2 = h, describe(h[i], got, want), i, got, want
                rep.violation(key_of(hist, ix, got2, want2), {
                    "ops": hist, "judged_op": ix, "in_history": got2, "pristine": want2,
                    "clause": "outcome of the call inside the history == outcome in a pristine process after only its dependency chain",
                }, f"history of {len(hist)} op(s) [{', '.join(('crash ' if 'crash_at' in o else '') + o['op'] for o in hist)}]: " + text)
    warn = [k for k in ("histories_with_crash", "histories_with_cli", "render_twice_same_slot", "crash_in_generate_code",
                        "two_frameworks_same_slot") if not stats[k]]
    return rep.finish({
        "evaluations": evaluations,
        "distinct_nontrivial": len(distinct),
        "rule": "history = seeded sequence of 2..4 (thorough: up to 6) operations GEN / RENDER / crashing GEN! / RENDER! / "
                "CLI perturbation over 1-3 registry slots in one process; every non-crashing GEN/RENDER is compared with "
                "the same call in a pristine fork after only the GEN of its slot; non-trivial = the judged call is preceded "
                "by another op on its slot, by a crash, or by a CLI perturbation; distinct by digest of the op prefix",
        "samples": samples,
        "histories": len(histories), "reach_probes": stats, "reach_warnings": warn,
        "fault_kinds": {"injected_crash_fired": stats["crash_fired"], "cli_perturbation": stats["histories_with_cli"]},
        "simulated_time": "one simulated clock read per CLI perturbation; irrelevant to this property",
        "note": "judged calls use nested layout only on tree-shaped graphs (the property's own domain); nested renders of "
                "non-tree graphs (possibly crashing) are issued as un-judged perturbations, so that state they leave "
                "behind (e.g. an un-restored reference context) is observable through later judged calls",
    }, assumptions=[
        "both sides run under identity set order, so a difference can only come from state carried through the process",
        "a crashed call's own outcome is not compared; everything after it is",
    ])


def replay(ctx, payload):
    with Pool(2, instrument=True) as pool:
        res, verdicts = evaluate(pool, [payload["ops"]])
        bad = [(ix, g, w) for _, ix, _, g, w in verdicts if g != w]
        if bad:
            ix, g, w = bad[-1]
            return True, describe(payload["ops"][ix], g, w)
    return False, "history outcomes equal pristine outcomes"
