"""C17 - a failing run reports failure and leaves existing output untouched (fault enumeration).

For every base scenario (a good C16 scenario whose fault-free control passes), every fault kind x position of the
faulty file among the good ones x output mode {stdout, -o absent, -o present with sentinel bytes} is executed by the
real cli.main() in-process behind the simulated seams.  Oracle: exit status != 0, no model code on stdout, sentinel
bytes untouched.  Write errors (success path) only check: exit 0 implies complete text.
"""
import copy
import json

from .. import seeds
from ..pool import Pool, unwrap
from ..scenario import (cli_spec, gen_scenario, has_model_code, parse_doc, ref_lookup, split_header)
from ..simenv import b64, unb64
from . import c16

PROP = "C17"
LEVEL = "fault_enumeration"
SENTINEL = b"# previous output \xff\xfe\x00 (sentinel, not UTF-8)\nclass Old:\n    pass\n"
OUT_MODES = ["stdout", "o_absent", "o_present"]

GEN_MODULE = '''
from json_to_models.models.base import GenericModelCodeGenerator


class RaisingGenerator(GenericModelCodeGenerator):
    calls = 0

    def __init__(self, model, raise_at="1", **kw):
        super().__init__(model, **kw)
        self._raise_at = int(raise_at)

    def generate(self, *a, **kw):
        type(self).calls += 1
        if type(self).calls >= self._raise_at:
            raise RuntimeError("generator failure (injected by the verification harness)")
        return super().generate(*a, **kw)
'''


# ---- fault construction ---------------------------------------------------------------------------------------------
def targets(sc):
    """Files of the scenario in delivery order: (arg index, rel, own|glob)."""
    out = []
    for ai, a in enumerate(sc["args"]):
        if a.get("glob"):
            for m in a["members"]:
                out.append((ai, m, "glob"))
        else:
            out.append((ai, a["path"], "own"))
    # a file listed twice is a single target
    seen, uniq = set(), []
    for t in out:
        if t[1] not in seen:
            seen.add(t[1])
            uniq.append(t)
    return uniq


def pos_label(i, n):
    if n == 1:
        return "only"
    return "first" if i == 0 else ("last" if i == n - 1 else "middle")


def pick_targets(sc, rng):
    ts = targets(sc)
    n = len(ts)
    idx = {0, n - 1}
    if n > 2:
        idx.add(rng.randrange(1, n - 1))
    g = [i for i, t in enumerate(ts) if t[2] == "glob"]
    if g:
        idx.add(rng.choice(g))
    return [(i, ts[i], pos_label(i, n)) for i in sorted(idx)], n


def independent_failure(fmt, text, lookup):
    """True iff an independent parse + lookup does not yield an object or a list of objects."""
    try:
        doc = parse_doc(fmt, text)
        item = ref_lookup(doc, lookup)
    except Exception:  # noqa
        return True
    def bad_keys(v):
        if isinstance(v, dict):
            return any(not isinstance(k, str) or bad_keys(x) for k, x in v.items())
        if isinstance(v, list):
            return any(bad_keys(x) for x in v)
        return False

    if isinstance(item, dict):
        return bad_keys(item)
    if isinstance(item, list):
        return any(not isinstance(x, dict) or bad_keys(x) for x in item)
    return True


def yaml_wrap(lookup, inner):
    if lookup in (None, "-", ""):
        return inner + "\n"
    lines, ind = [], 0
    for k in lookup.split("."):
        lines.append(" " * ind + f"{k}:")
        ind += 2
    return "\n".join(lines) + "\n" + "\n".join(" " * ind + ln for ln in inner.split("\n")) + "\n"


def state_faults(sc, rng):
    """Yield (kind, detail, pos, where, faulty scenario) for state faults (realised in the scratch file system)."""
    fmt = sc["format"]
    tgts, n = pick_targets(sc, rng)
    for i, (ai, rel, where), pos in tgts:
        arg = sc["args"][ai]
        lookup = arg.get("lookup")
        text = sc["files"][rel].get("text", "")

        def mod(file_entry=None, arg_patch=None):
            c = copy.deepcopy(sc)
            if file_entry is not None:
                c["files"][rel] = file_entry
            if arg_patch:
                c["args"][ai].update(arg_patch)
            return c

        if where == "own":
            yield "missing_file", "absent", pos, where, mod({"kind": "missing"})
        yield "missing_file", "dangling_symlink", pos, where, mod({"kind": "symlink_dangling"})
        yield "not_a_file", "directory", pos, where, mod({"kind": "dir"})
        # malformed documents: kept only if an independent parser fails too
        cuts = sorted({1, len(text) // 2, max(1, len(text) - 1)})
        for k in cuts:
            t = text[:k]
            if independent_failure(fmt, t, lookup):
                yield "malformed_" + fmt, f"torn_at_{k}", pos, where, mod({"text": t})
        if fmt in ("json", "yaml"):
            for a, b in (("{", "}"), ("[", "]"), (":", ";")):
                if a in text:
                    t = text.replace(a, b, 1)
                    if independent_failure(fmt, t, lookup):
                        yield "malformed_" + fmt, f"flip_{a}", pos, where, mod({"text": t})
                        break
            if fmt == "yaml":
                t = "a: [1, 2\nb: {x\n"
                yield "malformed_yaml", "unbalanced_flow", pos, where, mod({"text": t})
                t = "a:\n\t- 1\n"
                if independent_failure(fmt, t, lookup):
                    yield "malformed_yaml", "tab_indentation", pos, where, mod({"text": t})
        if fmt == "ini":
            for detail, t in (("no_section_header", "key = value\n"), ("duplicate_section", "[a]\nx = 1\n[a]\ny = 2\n"),
                              ("duplicate_option", "[a]\nx = 1\nx = 2\n")):
                if independent_failure(fmt, t, lookup):
                    yield "malformed_ini", detail, pos, where, mod({"text": t})
        if independent_failure(fmt, "", lookup):
            yield "malformed_" + fmt, "empty_file", pos, where, mod({"text": ""})
        if fmt in ("json", "yaml"):
            # non-object samples
            try:
                doc = json.loads(text)
            except ValueError:
                doc = None
            if doc is not None:
                for bad_name, bad in (("scalar", 5), ("string", "text"), ("null", None), ("list", [1])):
                    d = copy.deepcopy(doc)
                    try:
                        if lookup in (None, "-", ""):
                            holder, key = None, None
                            item = d
                        else:
                            keys = lookup.split(".")
                            holder = ref_lookup(d, ".".join(keys[:-1])) if len(keys) > 1 else d
                            key = keys[-1]
                            item = holder[key]
                        if isinstance(item, list):
                            item.insert(rng.choice([0, len(item)]), bad)
                            new_item = item
                        else:
                            new_item = [item, bad] if rng.random() < 0.5 else [bad, item]
                        if holder is None:
                            d = new_item
                        else:
                            holder[key] = new_item
                    except Exception:  # noqa
                        continue
                    t = json.dumps(d, ensure_ascii=False)
                    if independent_failure(fmt, t, lookup):
                        yield "non_object_sample", f"element_{bad_name}", pos, where, mod({"text": t})
                for bad_name, t in (("scalar", "5"), ("string", '"text"'), ("null", "null")):
                    if lookup in (None, "-", ""):
                        yield "non_object_sample", f"document_{bad_name}", pos, where, mod({"text": t})
            # wrong lookups (own arguments only: a pattern shares its lookup with the good files)
            if where == "own":
                for detail, lk in (("absent_key", (lookup + ".nope") if lookup not in (None, "-", "") else "nope"),
                                   ("absent_first_key", "nope.deeper"),
                                   ("through_scalar", (lookup.split(".")[0] if lookup not in (None, "-", "") else "x") + ".a.b"),
                                   ("noise_sibling", ("noise_" + lookup.split(".")[0]) if lookup not in (None, "-", "") else None)):
                    if lk is None:
                        continue
                    if independent_failure(fmt, text, lk):
                        yield "wrong_lookup", detail, pos, where, mod(arg_patch={"lookup": lk})
        if fmt == "yaml":
            t = yaml_wrap(lookup if where == "own" or lookup else None, "- {1: a, ~: b, 2.5: c}")
            if independent_failure(fmt, t, lookup):
                yield "non_string_keys", "int_null_float_keys", pos, where, mod({"text": t})
            # a sample with integer keys that is the twin of a well-formed sample delivered just before it (the faulty
            # sample equals a good one after key coercion: anything that de-duplicates or caches by a coerced form
            # would mask it)
            t = yaml_wrap(lookup if where == "own" or lookup else None,
                          "- {codes: {'200': ok, '404': nf}, n: 1}\n- {codes: {200: ok, 404: nf}, n: 1}")
            if independent_failure(fmt, t, lookup):
                yield "non_string_keys", "int_keys_twin_of_good_sample", pos, where, mod({"text": t})


ARGV_FAULTS = [
    ("invalid_argument", "unknown_merge_policy", ["--merge", "foo"]),
    ("invalid_argument", "non_numeric_percent", ["--merge", "percent_abc"]),
    ("invalid_argument", "non_numeric_number", ["--merge", "number_x1"]),
    ("invalid_argument", "unknown_framework", ["-f", "nope"]),
    ("invalid_argument", "unknown_structure", ["-s", "nope"]),
    ("invalid_argument", "unknown_input_format", ["-i", "nope"]),
    ("invalid_argument", "non_integer_max_literals", ["--max-strings-literals", "abc"]),
    ("invalid_argument", "model_with_one_value", ["-m", "OnlyName"]),
    ("invalid_argument", "model_with_four_values", ["-m", "A", "-", "b", "c"]),
    ("bad_generator_combination", "custom_without_generator", ["-f", "custom"]),
    ("bad_generator_combination", "generator_without_custom", ["--code-generator", "j2m_verif_gen.RaisingGenerator"]),
    ("bad_generator_combination", "unimportable_module", ["-f", "custom", "--code-generator", "no_such_module_xyz.Gen"]),
    ("bad_generator_combination", "missing_attribute", ["-f", "custom", "--code-generator", "j2m_verif_gen.NoSuchClass"]),
    ("generator_exception", "custom_generator_raises", ["-f", "custom", "--code-generator", "j2m_verif_gen.RaisingGenerator",
                                                        "--code-generator-kwargs", "raise_at=1"]),
]


def with_mode(sc, mode):
    c = copy.deepcopy(sc)
    c["out"] = None if mode == "stdout" else "out/result.py"
    return c


def make_spec(sc, mode, **kw):
    sc = with_mode(sc, mode)
    spec = cli_spec(sc, **kw)
    spec["files"] = dict(spec["files"])
    spec["files"]["j2m_verif_gen.py"] = {"text": GEN_MODULE}
    spec["syspath"] = True
    if mode == "o_present":
        spec["out_existing_b64"] = b64(SENTINEL)
    return spec


# ---- oracle -----------------------------------------------------------------------------------------------------------
def judge_fail(rec, mode):
    """Clauses for a run with a (non write-error) fault.  -> list of failed clause keys"""
    bad = []
    if rec["status"] == 0:
        bad.append("exit-status-zero")
    if has_model_code(rec["stdout"]):
        bad.append("model-code-on-stdout")
    if mode == "o_present":
        if rec.get("out_b64") is None or unb64(rec["out_b64"]) != SENTINEL:
            bad.append("existing-output-modified")
    return bad


def judge_success(rec, mode, oracle_text):
    """Complete-text clause for a run that exits 0."""
    if rec["status"] != 0:
        return []
    if mode == "stdout":
        head, rest = split_header(rec["stdout"])
        return [] if head and rest == oracle_text + "\n" else ["stdout-incomplete"]
    if rec.get("out_b64") is None:
        return ["o-file-missing"]
    try:
        t = unb64(rec["out_b64"]).decode("utf-8")
    except UnicodeDecodeError:
        return ["o-file-incomplete"]
    head, rest = split_header(t)
    return [] if head and rest == oracle_text else ["o-file-incomplete"]


def run(ctx):
    rep = ctx.reporter(PROP, LEVEL)
    quick = ctx.tier == "quick"
    n_base = int((110 if quick else 2500) * ctx.scale)
    kinds_fired, kinds_planned = {}, {}
    distinct, samples = set(), []
    evaluations = 0
    stats = {"bases": 0, "bases_dropped_library_raises": 0, "controls": 0, "crash_between_first_and_last_class": 0,
             "fault_on_last_of_several": 0, "glob_member_faulty": 0, "validated_real": 0, "locale_runs": 0}
    with Pool(ctx.jobs, instrument=True) as pool:
        # ---- bases and fault-free controls
        bases = []
        i = 0
        cand = []
        while len(cand) < n_base * 2 and i < n_base * 6:
            rng = seeds.derive(ctx.seed, PROP, "base", i)
            sc = gen_scenario(rng, min_files=2, want_out=False)
            i += 1
            if len(targets(sc)) >= 2 or rng.random() < 0.15:
                cand.append(sc)
        orc = [unwrap(x) for x in pool.map("scenario:job_oracle", [{"scenario": s} for s in cand], timeout=90)]
        for sc, o in zip(cand, orc):
            if "text" in o and len(bases) < n_base:
                bases.append(sc)
            elif "text" not in o:
                stats["bases_dropped_library_raises"] += 1
        stats["bases"] = len(bases)
        ctl_specs, ctl_meta = [], []
        for bi, sc in enumerate(bases):
            for mode in OUT_MODES:
                ctl_specs.append(make_spec(sc, mode, glob_seed=seeds.derive_int(ctx.seed, PROP, "glob", bi), count_lines=True))
                ctl_meta.append((bi, mode))
        ctl = [unwrap(x) for x in pool.map("simenv:job_cli", ctl_specs, timeout=120)]
        evaluations += len(ctl)
        ctl_orc = [unwrap(x) for x in pool.map("scenario:job_oracle",
                                               [{"scenario": bases[bi], "events": rec["events"]} for (bi, m), rec in zip(ctl_meta, ctl)],
                                               timeout=90)]
        control = {}
        for (bi, mode), rec, o in zip(ctl_meta, ctl, ctl_orc):
            stats["controls"] += 1
            control[(bi, mode)] = (rec, o)
            if "text" not in o:
                continue
            bad = judge_success(rec, mode, o["text"]) if rec["status"] == 0 else ["fault-free-run-fails"]
            if mode != "stdout" and has_model_code(rec["stdout"]):
                bad.append("model-code-on-stdout-with-o")
            if bad:
                rep.violation("control:" + bad[0], {"scenario": bases[bi], "mode": mode, "fault": None, "argv": rec["argv"],
                                                    "status": rec["status"], "exc": rec["exc"], "stdout": rec["stdout"][:2000],
                                                    "clause": bad}, f"fault-free control ({mode}): {bad}, exit {rec['status']} {rec['exc']}")

        # ---- enumerate faults
        cases = []  # (bi, mode, kind, detail, pos, where, spec, expect)
        for bi, sc in enumerate(bases):
            rng = seeds.derive(ctx.seed, PROP, "faults", bi)
            gseed = seeds.derive_int(ctx.seed, PROP, "glob", bi)
            n_t = len(targets(sc))
            for kind, detail, pos, where, fsc in state_faults(sc, rng):
                for mode in OUT_MODES:
                    sp = make_spec(fsc, mode, glob_seed=gseed)
                    sp["_faulty_base"] = next((r for r in fsc["files"] if fsc["files"][r] != sc["files"].get(r)),
                                              next((a["path"] for a, b in zip(fsc["args"], sc["args"]) if a != b), "")).rsplit("/", 1)[-1]
                    cases.append((bi, mode, kind, detail, pos, where, sp, "fail"))
            for kind, detail, extra in ARGV_FAULTS:
                for mode in OUT_MODES:
                    cases.append((bi, mode, kind, detail, "n/a", "argv", make_spec(sc, mode, glob_seed=gseed, extra_argv=extra), "fail"))
            # dynamic read faults
            tgts, _ = pick_targets(sc, rng)
            for ti, (ai, rel, where), pos in tgts:
                base = rel.rsplit("/", 1)[-1]
                size = len(sc["files"][rel].get("text", ""))
                for detail, f in (("open_EIO", {"kind": "open_error", "path": base, "errno": "EIO"}),
                                  ("open_EACCES", {"kind": "open_error", "path": base, "errno": "EACCES"}),
                                  ("read_EIO_at_0", {"kind": "read_error", "path": base, "errno": "EIO", "after": 0}),
                                  ("read_EIO_midway", {"kind": "read_error", "path": base, "errno": "EIO", "after": max(1, size // 2)})):
                    for mode in OUT_MODES:
                        cases.append((bi, mode, "read_error", detail, pos, where, make_spec(sc, mode, glob_seed=gseed, faults=[f]), "fail"))
            # crash points inside generation (k drawn over the dry-run length; before the output file is opened)
            for mode in OUT_MODES:
                rec0 = control[(bi, mode)][0]
                total = rec0.get("line_events") or 0
                limit = total
                if mode != "stdout" and rec0.get("out_changed_at"):
                    # the -o target was first seen modified at line event out_changed_at, i.e. by the line whose event
                    # number is out_changed_at - 1: crash points are placed up to (and including) that line's event,
                    # which fires before the line executes.  Measured on the file itself, so it does not depend on how
                    # the CLI opens it.
                    limit = max(1, rec0["out_changed_at"] - 1)
                if limit < 2:
                    continue
                marks = rec0.get("marks", {})
                ks = {rng.randint(1, limit), rng.randint(1, limit), limit}
                if "generate_code" in marks:
                    ks.add(min(limit, marks["generate_code"] + 1 + rng.randrange(50)))
                    ks.add(rng.randint(min(limit, marks["generate_code"] + 1), limit))
                if "run" in marks:
                    ks.add(min(limit, marks["run"] + rng.randrange(1, 200)))
                for k in sorted(ks):
                    cases.append((bi, mode, "generator_exception", f"crash_at_line_event", "n/a", "crash",
                                  make_spec(sc, mode, glob_seed=gseed, crash_at=k), "fail"))
            # write errors on the success path
            for detail, f in (("open_ENOSPC", {"kind": "open_error", "path": "*out", "errno": "ENOSPC"}),
                              ("open_EACCES", {"kind": "open_error", "path": "*out", "errno": "EACCES"}),
                              ("write_ENOSPC_partial", {"kind": "write_error", "path": "*out", "errno": "ENOSPC", "after": 0, "partial": True}),
                              ("write_EIO", {"kind": "write_error", "path": "*out", "errno": "EIO", "after": 0}),
                              ("close_EIO", {"kind": "close_error", "path": "*out", "errno": "EIO"})):
                for mode in ("o_absent", "o_present"):
                    cases.append((bi, mode, "write_error", detail, "n/a", "output", make_spec(sc, mode, glob_seed=gseed, faults=[f]), "write_error"))

        recs = [unwrap(x) for x in pool.map("simenv:job_cli", [c[6] for c in cases], timeout=120)]
        evaluations += len(recs)
        for (bi, mode, kind, detail, pos, where, spec, expect), rec in zip(cases, recs):
            kinds_planned[kind] = kinds_planned.get(kind, 0) + 1
            fired = True
            if kind in ("read_error", "write_error"):
                fired = any(f.get("fired") for f in rec["faults"])
            elif detail == "crash_at_line_event":
                fired = bool(rec.get("crash_fired"))
            elif where in ("own", "glob"):
                # state fault: the faulty path was actually opened (or its opening attempted)
                fired = any(e[1] == "open" and e[2] == spec.get("_faulty_base") for e in rec["events"])
            if fired:
                kinds_fired[kind] = kinds_fired.get(kind, 0) + 1
            if not fired:
                continue
            n_t = len(targets(bases[bi]))
            if n_t >= 2 or where in ("argv", "crash", "output"):
                distinct.add(seeds.digest([bi, kind, detail, pos, where, mode, spec.get("crash_at")]))
            stats["fault_on_last_of_several"] += pos == "last"
            stats["glob_member_faulty"] += where == "glob"
            if detail == "crash_at_line_event":
                m = control[(bi, mode)][0].get("marks", {})
                if "generate" in m and spec["crash_at"] > m["generate"]:
                    stats["crash_between_first_and_last_class"] += 1
            if len(samples) < 4 and (len(samples) == 0 or samples[-1]["kind"] != kind):
                samples.append({"kind": kind, "detail": detail, "position": pos, "where": where, "mode": mode,
                                "argv": rec["argv"], "status": rec["status"], "exc": rec["exc"],
                                "events_excerpt": rec["events"][:6]})
            o = control[(bi, mode)][1]
            if expect == "write_error":
                bad = judge_success(rec, mode, o["text"]) if "text" in o else []
            else:
                bad = judge_fail(rec, mode)
            if bad:
                key = f"{kind}:{detail}:{bad[0]}"
                if len(rep.violations) >= 6:
                    continue
                rep.violation(key, {"scenario": bases[bi], "mode": mode, "fault": {"kind": kind, "detail": detail, "position": pos, "where": where},
                                    "spec": spec, "status": rec["status"], "exc": rec["exc"], "stdout": rec["stdout"][:1500],
                                    "clause": bad},
                              f"fault {kind}/{detail} at {pos} ({where}), mode {mode}: {bad}; exit {rec['status']} {rec['exc']}")
        if not quick and not rep.violations:
            stats["validated_real"] = real_validation(ctx, rep, cases, recs)
        if not rep.violations:
            stats["locale_runs"] = locale_layer(ctx, rep, pool, bases, n=int((16 if quick else 300) * ctx.scale))
    not_fired = [k for k in kinds_planned if not kinds_fired.get(k)]
    return rep.finish({
        "evaluations": evaluations,
        "distinct_nontrivial": len(distinct),
        "rule": "for every base scenario: every fault kind x position of the faulty file (first/middle/last; own argument / "
                "inside a glob) x output mode {stdout, -o absent, -o present with non-UTF-8 sentinel}; non-trivial = the fault "
                "fired and there is at least one good file besides the faulty one (argv/crash/output faults: any base); "
                "distinct by (base, kind, detail, position, mode, crash point)",
        "samples": samples,
        "exhaustive": False,
        "fault_kinds_planned": dict(kinds_planned, environment_locale_C=stats["locale_runs"]),
        "fault_kinds_fired": dict(kinds_fired, environment_locale_C=stats["locale_runs"]),
        "reach_probes": stats, "reach_warnings": ["fault kind never fired: " + k for k in not_fired],
        "traces_validated_against_impl": stats["validated_real"],
        "simulated_time": "one simulated clock read per successful run (header); irrelevant to this property",
    }, assumptions=[
        "a torn/flipped file counts as a fault only if an independent parse (json / ruamel.yaml / configparser) + lookup "
        "does not yield an object or list of objects with string keys",
        "crash points are placed before the line that first modifies the -o file (measured in a dry run by watching the "
        "file; the statement covers generation, not a crash during the write)",
        "for write errors only 'exit 0 implies complete text' is checked",
    ])


def real_validation(ctx, rep, cases, recs):
    """Thorough: re-run a sample of state/argv fault scenarios with the real `python -m json_to_models` and compare
    status class, absence of model code on stdout and sentinel bytes with the in-process emulation."""
    import os
    import shutil
    import subprocess
    import tempfile
    from concurrent.futures import ThreadPoolExecutor
    from .. import loader
    from ..pool import HarnessError, PYTHON
    n = int(600 * ctx.scale)
    eligible = [ci for ci, c in enumerate(cases) if c[2] not in ("read_error", "write_error") and c[3] != "crash_at_line_event"]
    step = max(1, len(eligible) // max(1, n))
    picks = eligible[::step][:n]

    def one(ci):
        bi, mode, kind, detail, pos, where, spec, expect = cases[ci]
        scratch = tempfile.mkdtemp(prefix="j2m-c17-", dir="/dev/shm" if os.path.isdir("/dev/shm") else None)
        try:
            for rel, f in spec["files"].items():
                p = os.path.join(scratch, rel)
                os.makedirs(os.path.dirname(p), exist_ok=True)
                k = f.get("kind", "file")
                if k == "dir":
                    os.makedirs(p, exist_ok=True)
                elif k == "symlink_dangling":
                    os.symlink(os.path.join(scratch, "__nowhere__"), p)
                elif k == "missing":
                    pass
                else:
                    with open(p, "wb") as fh:
                        fh.write(f.get("text", "").encode("utf-8"))
            out_path = spec["out_path"].replace("{DIR}", scratch) if spec.get("out_path") else None
            if out_path and spec.get("out_existing_b64"):
                with open(out_path, "wb") as fh:
                    fh.write(SENTINEL)
            argv = [a.replace("{DIR}", scratch) for a in spec["argv"]]
            env = dict(os.environ, PYTHONPATH=loader.repo_dir() + os.pathsep + scratch, PYTHONIOENCODING="utf-8")
            env.pop("TRAVIS", None)
            env.pop("FORCE_COVERAGE", None)
            p = subprocess.run([PYTHON, "-m", "json_to_models", *argv], capture_output=True, env=env, timeout=180, cwd=scratch)
            real = {"status": p.returncode, "stdout": p.stdout.decode("utf-8", "replace"),
                    "out_b64": (b64(open(out_path, "rb").read()) if out_path and os.path.isfile(out_path) else None)}
            return ci, argv, real, p.stderr.decode("utf-8", "replace")[-800:]
        finally:
            shutil.rmtree(scratch, ignore_errors=True)

    with ThreadPoolExecutor(max_workers=max(2, ctx.jobs)) as ex:
        results = list(ex.map(one, picks))
    for ci, argv, real, stderr in results:
        bi, mode, kind, detail, pos, where, spec, expect = cases[ci]
        bad = judge_fail(real, mode)
        if bad:
            rep.violation(f"real:{kind}:{detail}:{bad[0]}", {"spec": spec, "mode": mode, "argv": argv, "status": real["status"],
                                                           "stderr": stderr, "clause": bad},
                          f"real CLI process, fault {kind}/{detail}, mode {mode}: {bad}")
            break
        if (real["status"] == 0) != (recs[ci]["status"] == 0):
            raise HarnessError(f"in-process status emulation disagrees with the real process for {kind}/{detail}")
    return len(results)


def locale_layer(ctx, rep, pool, bases, n):
    """Environment fault: the real CLI process under a non-UTF-8 locale (LC_ALL=C, UTF-8 mode off) with -o pointing at
    an existing sentinel file, ASCII-only arguments and input text, non-ASCII generated code (--no-unidecode, keys given
    as \\u escapes).  This is a fault-free control in another environment: the run must exit 0 and the file must hold
    the complete UTF-8 text (header + library text)."""
    import os
    import shutil
    import subprocess
    import tempfile
    from concurrent.futures import ThreadPoolExecutor
    from .. import loader
    from ..pool import PYTHON
    picks = []
    for sc in bases:
        if sc["format"] != "json" or len(picks) >= n or any(a.get("glob") for a in sc["args"]):
            continue  # (real directory order is not under control here: explicit paths only)
        c = copy.deepcopy(sc)
        c["options"]["convert_unicode"] = False
        ok = True
        for rel, f in c["files"].items():
            try:
                doc = json.loads(f["text"])
            except ValueError:
                ok = False
                break
            if isinstance(doc, dict):
                doc["zusätzlich_größe"] = 1
            elif isinstance(doc, list) and doc and isinstance(doc[0], dict):
                doc[0] = dict(doc[0], **{"zusätzlich_größe": 1})
            f["text"] = json.dumps(doc, ensure_ascii=True)
        if ok and all(a.isascii() for a in cli_spec(c)["argv"]):
            # ASCII-only arguments and input text: nothing in the environment can make reading or the header fail
            picks.append(with_mode(c, "o_present"))
    if not picks:
        return 0
    oracles = [unwrap(x) for x in pool.map("scenario:job_oracle", [{"scenario": c} for c in picks], timeout=90)]

    def one(c):
        scratch = tempfile.mkdtemp(prefix="j2m-c17l-", dir="/dev/shm" if os.path.isdir("/dev/shm") else None)
        try:
            spec = cli_spec(c)
            for rel, f in spec["files"].items():
                p = os.path.join(scratch, rel)
                os.makedirs(os.path.dirname(p), exist_ok=True)
                with open(p, "wb") as fh:
                    fh.write(f.get("text", "").encode("utf-8"))
            out_path = spec["out_path"].replace("{DIR}", scratch)
            with open(out_path, "wb") as fh:
                fh.write(SENTINEL)
            argv = [a.replace("{DIR}", scratch) for a in spec["argv"]]
            env = dict(os.environ, PYTHONPATH=loader.repo_dir(), LC_ALL="C", LANG="C", PYTHONUTF8="0", PYTHONCOERCECLOCALE="0")
            for k in ("TRAVIS", "FORCE_COVERAGE", "PYTHONIOENCODING"):
                env.pop(k, None)
            p = subprocess.run([PYTHON, "-m", "json_to_models", *argv], capture_output=True, env=env, timeout=180, cwd=scratch)
            with open(out_path, "rb") as fh:
                data = fh.read()
            return argv, p.returncode, data, p.stderr.decode("utf-8", "replace")[-600:]
        finally:
            shutil.rmtree(scratch, ignore_errors=True)

    with ThreadPoolExecutor(max_workers=max(2, ctx.jobs)) as ex:
        results = list(ex.map(one, picks))
    for c, o, (argv, rc, data, stderr) in zip(picks, oracles, results):
        bad = None
        if "text" not in o:
            continue
        if rc != 0:
            bad = "fault-free-run-fails" + ("+existing-output-modified" if data != SENTINEL else "")
        else:
            try:
                head, rest = split_header(data.decode("utf-8"))
                if not head or rest != o["text"]:
                    bad = "o-file-incomplete"
            except UnicodeDecodeError:
                bad = "o-file-incomplete"
        if bad:
            rep.violation("locale-C:" + bad, {"scenario": c, "mode": "o_present", "fault": {"kind": "environment", "detail": "LC_ALL=C PYTHONUTF8=0"},
                                              "argv": argv, "status": rc, "stderr": stderr, "clause": [bad]},
                          f"real CLI process under LC_ALL=C (UTF-8 mode off), exit {rc}: {bad}")
            break
    return len(results)


def replay(ctx, payload):
    with Pool(2, instrument=True) as pool:
        rec = unwrap(pool.map("simenv:job_cli", [payload["spec"]] if "spec" in payload else
                              [make_spec(payload["scenario"], payload["mode"])], timeout=120)[0])
        mode = payload["mode"]
        if payload.get("fault") and payload["fault"]["kind"] == "write_error":
            return False, "write-error replays need the oracle text; re-run the check"
        if payload.get("fault") is None:
            return False, "control replays need the oracle; re-run the check"
        bad = judge_fail(rec, mode)
        if bad:
            return True, f"{bad}; exit {rec['status']} {rec['exc']}"
    return False, "fault handled cleanly"
