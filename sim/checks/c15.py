"""C15 - generation works from any thread; concurrent independent runs do not interfere.

Run = N (1..8) independent pipelines on N real threads under the baton scheduler (sim/threads.py).
Oracle = each thread's outcome equals the outcome of the same pipeline run alone in a pristine process (main thread).
Search = seeded interleavings (switch points are line/opcode events in repository frames).
"""
import random

from .. import seeds, shrink
from ..pool import Pool, Skips, unwrap
from ..workload import gen_workload

PROP = "C15"
LEVEL = "exploration"


# ---- worker side --------------------------------------------------------------------------------------------------
def _cli_fn(spec, scratch):
    """A pipeline that is an in-process CLI command (Cli().parse_args + run), as a long-lived caller would issue it."""
    import os
    from ..pipeline import outcome
    from ..scenario import split_header
    d = os.path.join(scratch, spec["cli"]["dir"])
    os.makedirs(d, exist_ok=True)
    for rel, text in spec["cli"]["files"].items():
        with open(os.path.join(d, rel), "w", encoding="utf-8") as fh:
            fh.write(text)
    argv = [a.replace("{DIR}", d) for a in spec["cli"]["argv"]]
    out_file = os.path.join(d, "out.py") if spec["cli"].get("out") else None
    if out_file:
        argv += ["-o", out_file]

    def go():
        from json_to_models.cli import Cli
        c = Cli()
        c.parse_args(argv)
        text = c.run()
        if out_file:
            with open(out_file, encoding="utf-8") as fh:
                text = fh.read()
        return split_header(text)[1]

    return lambda: outcome(go)


def job_cli_alone(args):
    import shutil
    import tempfile
    from ..pipeline import set_schedule
    set_schedule(None)
    scratch = tempfile.mkdtemp(prefix="j2m-sim-", dir="/dev/shm" if __import__("os").path.isdir("/dev/shm") else None)
    try:
        return _cli_fn(args["spec"], scratch)()
    finally:
        shutil.rmtree(scratch, ignore_errors=True)


def job_threads(args):
    import shutil
    import tempfile
    from ..pipeline import full, outcome, set_schedule
    from ..threads import Baton
    specs = args["specs"]
    set_schedule(None)
    sched = args.get("sched") or {}
    extra = ()
    if any("cli" in s and "yaml" in " ".join(s["cli"]["argv"]) for s in specs):
        # the CLI keeps ONE module-level YAML parser object: frames of the YAML library are pre-emption points as well
        import os as _os
        import ruamel.yaml as _ry
        extra = (_os.path.dirname(_ry.__file__) + "/",)
    baton = Baton(len(specs), rng=random.Random(sched.get("seed", 0)), mean_gap=sched.get("mean_gap", 50),
                  p_target=sched.get("p_target", 0.0), replay=args.get("replay"), p_first=sched.get("p_first", 0.0),
                  extra_prefixes=extra)
    scratch = None
    if any("cli" in s for s in specs):
        scratch = tempfile.mkdtemp(prefix="j2m-sim-", dir="/dev/shm" if __import__("os").path.isdir("/dev/shm") else None)
    try:
        def lib_fn(s):
            if "before" in s:
                # a pooled worker thread: it ran another generation (possibly one that raised) before this one
                def run_both(s=s):
                    b = s["before"]
                    outcome(full, b["models"], b["options"], b["options"].get("structure", "flat"))
                    return outcome(full, s["models"], s["options"], s["options"].get("structure", "flat"))
                return run_both
            return lambda s=s: outcome(full, s["models"], s["options"], s["options"].get("structure", "flat"))

        fns = [(_cli_fn(s, scratch) if "cli" in s else lib_fn(s)) for s in specs]
        results = baton.run(fns, timeout=args.get("timeout", 100))
    finally:
        if scratch:
            shutil.rmtree(scratch, ignore_errors=True)
    return {"outcomes": results, "schedule": baton.schedule(), "probe": baton.probe, "steps": baton.step,
            "over_budget": baton.over_budget}


# ---- parent side --------------------------------------------------------------------------------------------------
def make_run(seed, i):
    rng = seeds.derive(seed, PROP, i, "workload")
    n = rng.choice([1, 2, 2, 2, 3, 3, 4, 4, 5, 6, 8])
    specs = []
    # bias: some runs make every thread render a nested layout with shared sub-models, so that several threads hold a
    # NON-EMPTY absolute-reference mapping at the same time (the state in which a shared context would be visible)
    shared_nested = rng.random() < 0.35
    fixed = dict(structures=["nested"], p_nested=0.5, p_list_obj=0.25, n_shapes=rng.randint(3, 5), depth=3,
                 p_variant=0.0, n_models=1, p_missing=0.0, width=rng.randint(2, 4)) if shared_nested else {}
    # bias: some runs give several threads the SAME document (models compare equal across registries) with option
    # variations inside one framework family (different max_literals / converters) - the state in which shared
    # mutable class-level or process-level data would be overwritten by a neighbour
    same_doc = n >= 2 and rng.random() < 0.3
    shared_registry = same_doc and seeds.derive(seed, PROP, i, "registry", 0).random() < 0.5
    if same_doc and not shared_nested and rng.random() < 0.5:
        # threads that share a document differ in the unicode option: give the document names for which it matters
        fixed = dict(fixed, key_styles=["unicode", "snake", "odd"])
    if shared_registry and not shared_nested:
        # every thread resolves unions of string pseudo-types (int-like next to float-like strings) through the
        # process-global default registry: the state in which lazily built registry data would be observed half-built
        fixed = dict(scalar_kinds=["str_int", "str_float", "str_int", "str_float", "str_bool", "str_plain"], p_hetero=0.8,
                     p_null=0.0, p_container=0.0, width=rng.randint(2, 5), samples=rng.randint(3, 6), p_self=0.0)
    if n >= 2 and not shared_nested and not shared_registry and rng.random() < 0.15:
        # every thread detects date / time strings (some only parse with a warning: unknown timezone abbreviations) -
        # the state in which process-wide settings changed around a detection call (warnings filters, locale, parser
        # defaults) would be seen by a neighbour
        fixed = dict(fixed, scalar_kinds=["str_time_tz", "str_time_tz", "str_time", "str_datetime", "str_date", "str_plain", "int"],
                     p_hetero=0.5, p_datetime=1.0, p_container=0.0, samples=rng.randint(3, 6))
    for t in range(n):
        # (bulk sample lists are excluded: under line tracing with frequent baton hand-offs they take minutes)
        w = gen_workload(seeds.derive(seed, PROP, i, "thread", 0 if same_doc else t), **dict(fixed, bulk=0))
        o = dict(w["options"])
        if same_doc and t:
            vr = seeds.derive(seed, PROP, i, "variation", t)
            o["max_literals"] = vr.choice([0, 1, 2, 3, 10, 15, 20])
            if vr.random() < 0.4:
                fam = {"base": ["base", "dataclasses"], "dataclasses": ["base", "dataclasses"],
                       "pydantic": ["pydantic", "sqlmodel"], "sqlmodel": ["pydantic", "sqlmodel"], "attrs": ["attrs"]}
                o["framework"] = vr.choice(fam[o["framework"]])
            if vr.random() < 0.5:
                o["convert_unicode"] = not o["convert_unicode"]
            if vr.random() < 0.3:
                o["structure"] = vr.choice(["flat", "nested"])
        if shared_registry or (not same_doc and seeds.derive(seed, PROP, i, "registry", t).random() < 0.35):
            # the process-global default string-type registry, shared by every thread that does not pass its own
            o["str_types"] = "default"
        specs.append({"models": w["models"], "options": o})
    if n >= 2 and rng.random() < 0.04:
        # one thread works on a very deeply nested document (far beyond the default recursion limit: alone it ends in
        # RecursionError on a tree that does not raise the limit, and completes on one that does): interpreter-wide
        # settings changed temporarily by one pipeline must not leak into another
        depth = rng.choice([560, 640])
        doc = {"leaf": 1}
        for lvl in range(depth):
            # distinct keys per level: the levels must not be similar to each other (no merging, no group closure)
            doc = {f"a{lvl}": 1, f"b{lvl}": "x", "n": doc}
        specs[rng.randrange(n)] = {"models": [["Deep", [doc]]],
                                   "options": dict(specs[0]["options"], structure="flat", dict_keys_regex=[], dict_keys_fields=[],
                                                   merge=["exact"], str_types=["int", "float", "bool"])}
    if n >= 2 and not shared_registry and rng.random() < 0.12:
        # some (>= 2) threads are in-process CLI commands with --datetime: they register the date/time types in the
        # process-global default registry (every CLI thread does, before its own detection); the other threads use
        # explicit registries.  Outcome of a CLI thread = the returned text after the header.
        import json as _json
        k = rng.randint(2, n)
        for t in rng.sample(range(n), k):
            w = gen_workload(seeds.derive(seed, PROP, i, "cli", t), bulk=0, n_models=1,
                             scalar_kinds=["str_date", "str_datetime", "str_time", "str_plain", "int", "str_int"], p_hetero=0.4)
            o = w["options"]
            crng = seeds.derive(seed, PROP, i, "cliopts", t)
            fmt = crng.choice(["json", "json", "yaml", "ini"])
            if fmt == "ini":
                fname = "data.ini"
                text = "\n".join(f"[s{k}]\nhost = h{k}\nport = {8000 + k}\nstarted = 2020-01-0{k + 1}\n" for k in range(crng.randint(1, 3)))
            else:
                fname = "data." + fmt
                text = _json.dumps(w["models"][0][1], ensure_ascii=False, indent=(1 if fmt == "yaml" else None))
            argv = ["-m", "Cli%d" % t, "{DIR}/" + fname, "--datetime", "-f", o["framework"], "-s", o["structure"],
                    "--max-strings-literals", str(o["max_literals"])] + (["--merge", *o["merge"]] if o.get("merge") else [])
            if fmt != "json":
                argv += ["-i", fmt]
            specs[t] = {"cli": {"dir": "t%d" % t, "files": {fname: text}, "argv": argv, "out": crng.random() < 0.4}}
        for t in range(n):
            if "cli" not in specs[t] and specs[t]["options"].get("str_types") == "default":
                specs[t]["options"]["str_types"] = ["int", "float", "bool"]
    if rng.random() < 0.10:
        # a re-used worker thread: before its pipeline it runs another generation on the same thread - a nested render
        # of a document with shared sub-models (non-empty reference mapping), which often raises midway because of a key
        # that has no identifier characters.  The judged outcome is that of the second generation only.
        t = rng.randrange(n)
        if "cli" not in specs[t]:
            wb = gen_workload(seeds.derive(seed, PROP, i, "before", t), structures=["nested"], p_nested=0.5, p_list_obj=0.25,
                              n_shapes=rng.randint(3, 5), depth=3, p_variant=0.0, n_models=1, p_missing=0.0,
                              width=rng.randint(2, 4), bulk=0, key_styles=["snake", "odd"])
            ob = dict(wb["options"], structure="nested")
            specs[t] = dict(specs[t], before={"models": wb["models"], "options": ob})
            if rng.random() < 0.5:
                # the judged generation works on the same document, flat
                specs[t]["models"] = wb["models"]
                specs[t]["options"] = dict(ob, structure="flat")
    srng = seeds.derive(seed, PROP, i, "schedule")
    sched = {"seed": srng.getrandbits(48), "mean_gap": srng.choice([2, 3, 10, 30, 100, 300, 1000, 3000]),
             "p_target": srng.choice([0.0, 0.2, 0.5]), "p_first": srng.choice([0.0, 0.3, 0.7])}
    if shared_registry:
        # shared default objects are where lazy first-use initialisation lives: always use the first-call bias here
        sched["p_first"] = 0.7
    return {"specs": specs, "sched": sched}


def ref_job(spec):
    if "cli" in spec:
        return {"spec": spec}
    return {"models": spec["models"], "options": spec["options"]}


def ref_fn(spec):
    return "checks.c15:job_cli_alone" if "cli" in spec else "pipeline:job_full"


def ref_outcome(res, spec, skips=None):
    v = skips.take(res) if skips is not None else unwrap(res)
    if v is None:
        return None  # the alone-run hit the job time limit: the run is not judged
    if "cli" in spec:
        return v
    return v[spec["options"].get("structure", "flat")]


def ref_map(pool, specs, timeout=60, skips=None):
    """Alone-run outcomes of a list of pipeline specs (library pipelines and CLI commands)."""
    out = [None] * len(specs)
    for fn in ("pipeline:job_full", "checks.c15:job_cli_alone"):
        idx = [k for k, s in enumerate(specs) if ref_fn(s) == fn]
        if idx:
            res = pool.map(fn, [ref_job(specs[k]) for k in idx], timeout=timeout)
            for k, r in zip(idx, res):
                out[k] = ref_outcome(r, specs[k], skips)
    return out


def mismatches(refs, outs):
    return [t for t, (r, o) in enumerate(zip(refs, outs)) if r != o]


def judged(res):
    """Every completed run is judged.  A run whose line-step budget ran out simply stopped being pre-empted from that
    point on (nothing is ever raised into the code under test); it is still a legal execution and its explicit switch
    list replays it.  Such runs are counted in the evidence."""
    return True


def describe(ref, out):
    def d(o):
        if o is None:
            return "no result"
        if "text" in o:
            return f"text[{len(o['text'])}]"
        if "exc" in o:
            return f"{o['exc']}: {o['msg'][:120]}"
        return str(o)[:150]
    return f"alone -> {d(ref)} ; in thread -> {d(out)}"


def violation_key(ref, out):
    if out and "exc" in out and not (ref and "exc" in ref):
        return "thread-raises:" + out["exc"] + ":" + seeds.digest(out["msg"])[:8]
    return "thread-output-differs"


def evaluate(pool, run, replay=None, timeout=120):
    """-> (refs, result of the thread job)"""
    refs = ref_map(pool, run["specs"])
    args = {"specs": run["specs"], "sched": run.get("sched"), "replay": replay, "timeout": timeout - 20}
    res = unwrap(pool.map("checks.c15:job_threads", [args], timeout=timeout)[0])
    return refs, res


def minimise(pool, run, res, refs, bad):
    """Smallest (threads, switch list, workload) that still makes some thread differ from its alone-run."""
    budget = shrink.Budget(300)
    t = bad[0]
    spec = run["specs"][t]
    # 1. degenerate schedule: the failing pipeline alone on one worker thread, no switch
    single = {"specs": [spec]}
    r1, o1 = evaluate(pool, single, replay={"first": 0, "switches": [], "handoffs": {}})
    if judged(o1) and mismatches(r1, o1["outcomes"]) and ("cli" in spec or "before" in spec):
        return single, {"first": 0, "switches": [], "handoffs": {}}, r1, o1, [0]
    if judged(o1) and mismatches(r1, o1["outcomes"]):
        def test_batch(cands):
            jobs_ref = pool.map("pipeline:job_full", [ref_job({"models": c["models"], "options": c["options"]})
                                                      for c in cands], timeout=60)
            jobs_thr = pool.map("checks.c15:job_threads",
                                [{"specs": [{"models": c["models"], "options": c["options"]}],
                                  "replay": {"first": 0, "switches": [], "handoffs": {}}} for c in cands], timeout=100)
            out = []
            for c, a, b in zip(cands, jobs_ref, jobs_thr):
                try:
                    ra = unwrap(a)[c["options"].get("structure", "flat")]
                    ub = unwrap(b)
                    rb = ub["outcomes"][0]
                    out.append(judged(ub) and ra != rb and violation_key(ra, rb) == violation_key(r1[0], o1["outcomes"][0]))
                except Exception:  # noqa
                    out.append(False)
            return out
        small = shrink.shrink_workload({"models": spec["models"], "options": spec["options"]}, test_batch, budget)
        single = {"specs": [small]}
        r1, o1 = evaluate(pool, single, replay={"first": 0, "switches": [], "handoffs": {}})
        return single, {"first": 0, "switches": [], "handoffs": {}}, r1, o1, [0]
    # 2. keep all threads, minimise the switch list
    sched0 = res["schedule"]

    def test(switches):
        rp = {"first": sched0["first"], "switches": switches, "handoffs": sched0["handoffs"]}
        try:
            rr, oo = evaluate(pool, run, replay=rp)
        except Exception:  # noqa
            return False
        return judged(oo) and bool(mismatches(rr, oo["outcomes"]))

    # a failure is usually decided by the first few switches: binary-search the shortest failing prefix, then ddmin
    sw = sched0["switches"]
    lo, hi = 0, len(sw)
    while lo < hi and budget.take():
        mid = (lo + hi) // 2
        if test(sw[:mid]):
            hi = mid
        else:
            lo = mid + 1
    if hi < len(sw) and not (budget.take() and test(sw[:hi])):
        hi = len(sw)
    switches = shrink.ddmin(sw[:hi], test, shrink.Budget(min(budget.left, 120)))
    rp = {"first": sched0["first"], "switches": switches, "handoffs": sched0["handoffs"]}
    rr, oo = evaluate(pool, run, replay=rp)
    bad2 = mismatches(rr, oo["outcomes"])
    if not bad2:  # should not happen (ddmin keeps failing lists); fall back to the original schedule
        rp = sched0
        rr, oo = refs, res
        bad2 = bad
    return run, rp, rr, oo, bad2


def run(ctx):
    rep = ctx.reporter(PROP, LEVEL)
    n_runs = {"quick": 2000, "thorough": 40000}[ctx.tier]
    n_runs = int(n_runs * ctx.scale)
    runs = [make_run(ctx.seed, i) for i in range(n_runs)]
    distinct = set()
    nontrivial = set()
    probes = {}
    steps_total = 0
    switches_total = 0
    threads_hist = {}
    samples = []
    evaluations = 0
    skipped_over_budget = 0
    with Pool(ctx.jobs, instrument=True) as pool:
        flat, index = [], []
        for i, r in enumerate(runs):
            for t, s in enumerate(r["specs"]):
                flat.append(s)
                index.append((i, t))
        skips = Skips(limit=max(5, n_runs // 50))
        flat_refs = ref_map(pool, flat, skips=skips)
        refs = [[None] * len(r["specs"]) for r in runs]
        for (i, t), ro in zip(index, flat_refs):
            refs[i][t] = ro
        thr = pool.map("checks.c15:job_threads",
                       [{"specs": r["specs"], "sched": r["sched"]} for r in runs], timeout=150)
        reported = set()
        for i, (r, res) in enumerate(zip(runs, thr)):
            res = skips.take(res)
            if res is None or any(x is None for x in refs[i]):
                continue  # time limit hit by the threaded run or by an alone-run: not judged
            evaluations += 1
            n = len(r["specs"])
            threads_hist[n] = threads_hist.get(n, 0) + 1
            steps_total += res["steps"]
            switches_total += len(res["schedule"]["switches"])
            for k, v in res["probe"].items():
                probes[k] = probes.get(k, 0) + (1 if v else 0)
            d = seeds.digest([i, res["schedule"]["switches"]])
            distinct.add(d)
            if res["probe"]["switch_while_2_in_generate_code"] or n == 1:
                nontrivial.add(d)
            if len(samples) < 3 and n > 1:
                samples.append({"run": i, "threads": n, "sched": r["sched"], "steps": res["steps"],
                                "switches_first10": res["schedule"]["switches"][:10],
                                "n_switches": len(res["schedule"]["switches"]),
                                "thread0_excerpt": str(r["specs"][0])[:400]})
            skipped_over_budget += bool(res.get("over_budget"))
            bad = mismatches(refs[i], res["outcomes"])
            if bad:
                key0 = violation_key(refs[i][bad[0]], res["outcomes"][bad[0]])
                if key0 in reported:
                    continue
                reported.add(key0)
                mrun, rp, rr, oo, bad2 = minimise(pool, r, res, refs[i], bad)
                if not bad2 or rr[bad2[0]] == oo["outcomes"][bad2[0]]:
                    # the minimised form does not fail (any more): report the original run as it is
                    mrun, rp, rr, oo, bad2 = r, res["schedule"], refs[i], res, bad
                t = bad2[0]
                key = violation_key(rr[t], oo["outcomes"][t])
                rep.violation(key, {
                    "run_index": i, "specs": mrun["specs"], "schedule": rp, "thread": t,
                    "alone_outcome": rr[t], "thread_outcome": oo["outcomes"][t],
                    "clause": "thread outcome == alone outcome",
                }, f"{len(mrun['specs'])} thread(s), {len(rp['switches'])} switch(es): " + describe(rr[t], oo["outcomes"][t]))
    # (runs over the line-step budget are still judged - see judged() - so their number is only reported)
    warn = [k for k in ("switch_while_2_in_generate_code", "switch_in_context_manager",
                        "thread_started_after_other_finished", "switch_in_models_meta",
                        "switch_while_2_nonempty_mappings") if not probes.get(k)]
    return rep.finish({
        "evaluations": evaluations,
        "distinct_nontrivial": len(nontrivial),
        "rule": "run = N in 1..8 independent pipelines (seeded workloads/options, any layout) on N real threads "
                "under the baton scheduler; distinct = digest of (run, switch list); non-trivial = at least one "
                "pre-emption while >= 2 threads are inside generate_code, or the single-worker-thread schedule",
        "samples": samples,
        "distinct_interleavings": len(distinct),
        "threads_histogram": {str(k): v for k, v in sorted(threads_hist.items())},
        "line_steps_total": steps_total, "runs_over_step_budget_not_preempted_to_the_end": skipped_over_budget,
        "jobs_timed_out_not_judged": skips.timeouts,
        "switches_total": switches_total,
        "reach_probes_runs": probes,
        "reach_warnings": warn,
        "fault_kinds": {"preemption_at_line_event": switches_total},
        "simulated_time": "none: no clock is read by the code under this property",
    }, assumptions=[
        "pre-emption granularity is a source line (opcode inside models_meta.py); GIL switches inside C calls or "
        "Jinja-compiled template bodies are not simulated",
        "reference outcome = same pipeline alone in a pristine fork on the main thread, identity set order",
    ])


def replay(ctx, payload):
    with Pool(min(ctx.jobs, 2), instrument=True) as pool:
        run_ = {"specs": payload["specs"]}
        refs, res = evaluate(pool, run_, replay=payload["schedule"])
        bad = mismatches(refs, res["outcomes"]) if judged(res) else []
        if bad:
            return True, describe(refs[bad[0]], res["outcomes"][bad[0]])
    return False, "not reproduced"
