"""C07 - sample order and repetition do not change what is inferred.

Fault model: reordering and duplication of sample *deliveries* against a reference run (DESIGN.md 4.2).
Run = base sample lists (from the common workload generator) + a seeded variant: per model name a permutation of the
samples and/or repetitions of samples already present.  Oracle = equality of the canonical model graph (colour
refinement; field order, union member order and numeric name suffixes abstracted away).  Both sides run under
identity set order in pristine forks.
"""
import copy

from .. import seeds, shrink
from ..pool import Pool, Skips, unwrap
from ..workload import gen_workload

PROP = "C07"
LEVEL = "exploration"


def make_variant(rng, models):
    """-> (variant models, plan) ; plan = per model {"perm": [...], "dups": [[pos, src], ...]}"""
    out, plan = [], []
    for name, samples in models:
        n = len(samples)
        perm = list(range(n))
        mode = rng.choice(["perm", "perm", "dup", "both", "reverse"] * 3 + ["mass_dup"])
        if mode in ("perm", "both"):
            rng.shuffle(perm)
        elif mode == "reverse":
            perm.reverse()
        var = [samples[i] for i in perm]
        dups = []
        if mode in ("dup", "both") and n:
            for _ in range(rng.randint(1, 3)):
                src = rng.randrange(n)
                pos = rng.randint(0, len(var))
                var.insert(pos, samples[src])
                dups.append([pos, src])
        if mode == "mass_dup" and n:
            # one sample repeated hundreds of times (beyond any warm-up count, cache or batch size), mostly BEFORE the rest
            src = rng.randrange(n)
            count = rng.choice([40, 600, 1100]) if n <= 100 else 3
            pos = 0 if rng.random() < 0.7 else rng.randint(0, len(var))
            for _ in range(count):
                var.insert(pos, samples[src])
                dups.append([pos, src])
        out.append([name, var])
        plan.append({"perm": perm, "dups": dups})
    return out, plan


def apply_plan(models, plan):
    out = []
    for (name, samples), p in zip(models, plan):
        var = [samples[i] for i in p["perm"] if i < len(samples)]
        for pos, src in p["dups"]:
            if src < len(samples):
                var.insert(min(pos, len(var)), samples[src])
        out.append([name, var])
    return out


def nontrivial(models, plan):
    for (name, samples), p in zip(models, plan):
        distinct = len({seeds.digest(s) for s in samples})
        if p["dups"]:
            return True
        if distinct >= 2 and p["perm"] != sorted(p["perm"]):
            # permutation must actually move two different samples
            moved = [samples[i] for i in p["perm"]]
            if any(seeds.digest(a) != seeds.digest(b) for a, b in zip(moved, samples)):
                return True
    return False


def show_plan(plan):
    """Plan with runs of equal duplications collapsed (600 x [pos, src])."""
    out = []
    for p in plan:
        runs = []
        for d in p["dups"]:
            if runs and runs[-1][1] == d:
                runs[-1][0] += 1
            else:
                runs.append([1, d])
        out.append({"perm": p["perm"], "dups": [d if c == 1 else f"{c} x {d}" for c, d in runs]})
    return out


def differs(a, b):
    """Both inferences succeeded and the canonical graphs differ."""
    return "text" in a and "text" in b and a["text"]["canon"] != b["text"]["canon"]


def describe(a, b):
    ra, rb = a["text"]["readable"], b["text"]["readable"]
    only_a = [x for x in ra if x not in rb]
    only_b = [x for x in rb if x not in ra]
    return f"base-only models: {only_a[:3]} ; variant-only models: {only_b[:3]}"


def key_of(a, b):
    """Coarse class of the difference, used as the known-findings key."""
    ra, rb = a["text"]["readable"], b["text"]["readable"]
    if len(ra) != len(rb):
        return "model-count-differs"
    only_a = [x for x in ra if x not in rb]
    only_b = [x for x in rb if x not in ra]
    if len(only_a) == 1 and len(only_b) == 1:
        fa = dict(f.rsplit(": ", 1)[::-1][::-1] if ": " in f else (f, "") for f in only_a[0].split("{ ", 1)[-1].rstrip(" }").split("; "))
        fb = dict(f.rsplit(": ", 1)[::-1][::-1] if ": " in f else (f, "") for f in only_b[0].split("{ ", 1)[-1].rstrip(" }").split("; "))
        na = {k.rstrip("?") for k in fa}
        nb = {k.rstrip("?") for k in fb}
        if na == nb and set(fa) != set(fb):
            return "optional-status-differs"
        if na != nb:
            return "field-set-differs"
        return "field-type-differs"
    return "models-differ"


def run(ctx):
    rep = ctx.reporter(PROP, LEVEL)
    quick = ctx.tier == "quick"
    n_base = int((3000 if quick else 40000) * ctx.scale)
    k_var = 5
    bases = []
    i = 0
    while len(bases) < n_base:
        nrng = seeds.derive(ctx.seed, PROP, "ns", i)
        # inference only is cheap: long sample lists (literal limits, batch sizes) are affordable here
        w = gen_workload(seeds.derive(ctx.seed, PROP, "w", i),
                         samples=nrng.choice([nrng.randint(2, 6)] * 8 + [nrng.randint(14, 40)] * 2),
                         bulk=nrng.choice([0] * 70 + [1001, 1500, 2100]))
        i += 1
        if all(len(s) >= 1 for _, s in w["models"]) and any(len(s) >= 2 for _, s in w["models"]):
            bases.append(w)
        if i > n_base * 20:
            break
    jobs, meta = [], []
    for bi, w in enumerate(bases):
        jobs.append({"models": w["models"], "options": w["options"]})
        meta.append((bi, None))
        for k in range(k_var):
            var, plan = make_variant(seeds.derive(ctx.seed, PROP, "variant", bi, k), w["models"])
            jobs.append({"models": var, "options": w["options"]})
            meta.append((bi, plan))
    distinct, samples = set(), []
    stats = {"skipped_raising": 0, "compared": 0, "registry_points": 0}
    with Pool(ctx.jobs, instrument=True) as pool:
        skips = Skips(limit=max(5, len(jobs) // 200))
        res = [skips.take(r) for r in pool.map("pipeline:job_infer_canon", jobs, timeout=45)]
        base_res = {}
        for (bi, plan), r in zip(meta, res):
            if plan is None:
                base_res[bi] = r
        for (bi, plan), r in zip(meta, res):
            if plan is None:
                continue
            b = base_res[bi]
            if b is None or r is None:
                continue  # a job ran into its time limit: not judged (counted in jobs_timed_out)
            if "text" not in b or "text" not in r:
                stats["skipped_raising"] += 1
                continue
            stats["compared"] += 1
            w = bases[bi]
            if nontrivial(w["models"], plan):
                distinct.add(seeds.digest([w["models"], w["options"], plan]))
            if len(samples) < 3 and len(b["text"]["readable"]) > 1:
                samples.append({"base_models_excerpt": str(w["models"])[:300], "plan": plan,
                                "canonical_models": b["text"]["readable"][:4]})
            if differs(b, r) and len(rep.violations) < 4:
                key = key_of(b, r)
                if any(k == key for k, _, _ in rep.violations) or key in rep.known_seen:
                    continue
                small, splan, sb, sr = minimise(pool, w, plan, key)
                rep.violation(key_of(sb, sr), {
                    "workload": small, "plan": splan, "variant_models": apply_plan(small["models"], splan),
                    "base_graph": sb["text"]["readable"], "variant_graph": sr["text"]["readable"],
                    "clause": "canonical model graph of permuted/duplicated samples == that of the base list",
                }, f"plan {show_plan(splan)}: " + describe(sb, sr))
        glob_stats = glob_channel(ctx, pool, rep, distinct)
    return rep.finish({
        "evaluations": len(jobs) + glob_stats["runs"],
        "distinct_nontrivial": len(distinct),
        "rule": "base sample lists (2-6 samples per model) from the seeded workload generator; variant = seeded "
                "permutation and/or repetition of present samples per model name; non-trivial = the permutation moves "
                "two different samples or a sample is repeated; distinct by digest(workload, options, plan)",
        "samples": samples,
        "bases": len(bases), "variants_per_base": k_var, **stats, "glob_channel": glob_stats,
        "jobs_timed_out_not_judged": skips.timeouts,
        "fault_kinds": {"reorder_delivery": sum(1 for m in meta if m[1] and any(p["perm"] != sorted(p["perm"]) for p in m[1])),
                        "duplicate_delivery": sum(1 for m in meta if m[1] and any(p["dups"] for p in m[1]))},
        "simulated_time": "none",
        "note": "base sample lists are generated workload, not a simulated dimension; the simulated dimension is the "
                "order/duplication of deliveries",
    }, assumptions=[
        "colour refinement is isomorphism invariant, so equal graphs always compare equal; two non-isomorphic graphs "
        "with equal refinement colours would be missed (detection loss only)",
        "pairs where either side raises are skipped, not judged",
    ])


def glob_specs(w, orders, dup):
    """CLI specs delivering the samples of each model as one file per sample through one glob pattern per model; the
    simulated directory returns the matches in the scheduled order; `dup` lists one file a second time (-m again)."""
    from ..scenario import cli_options, options_argv
    o = cli_options(None, w["options"])
    files, argv = {}, []
    import json as _json
    import re as _re
    for mi, (name, samples) in enumerate(w["models"]):
        name = _re.sub(r"\W", "", name) or "M"
        deep = bool(w.get("_deep_dirs"))
        for si, smp in enumerate(samples):
            # with _deep_dirs every sample sits in its own sub-directory under the SAME base name
            rel = f"m{mi}/d{si}/sample.json" if deep else f"m{mi}/s{si}.json"
            files[rel] = {"text": _json.dumps(smp, ensure_ascii=False)}
        argv += ["-m", name, "{DIR}/" + (f"m{mi}/**/*.json" if deep else f"m{mi}/*.json")]
    if dup is not None:
        mi, si = dup
        name = _re.sub(r"\W", "", w["models"][mi][0]) or "M"
        argv += ["-m", name, "{DIR}/" + (f"m{mi}/d{si}/sample.json" if w.get("_deep_dirs") else f"m{mi}/s{si}.json")]
    argv += options_argv(o)
    return {"files": files, "argv": argv, "glob_order": orders, "canon": True}


def glob_channel(ctx, pool, rep, distinct):
    """Delivery through the CLI: reordered directory enumeration and a file matched twice (DESIGN.md 4.2)."""
    n = int((150 if ctx.tier == "quick" else 3000) * ctx.scale)
    stats = {"runs": 0, "compared": 0, "skipped_failing": 0, "reordered": 0, "duplicated": 0}
    specs, meta = [], []
    for i in range(n):
        rng = seeds.derive(ctx.seed, PROP, "glob", i)
        w = gen_workload(seeds.derive(ctx.seed, PROP, "globw", i), samples=rng.randint(2, 5))
        if not any(len(s) >= 2 for _, s in w["models"]):
            continue
        w["_deep_dirs"] = rng.random() < 0.4
        ident = [list(range(len(s))) for _, s in w["models"]]
        specs.append(glob_specs(w, ident, None))
        meta.append((i, "base", None))
        for k in range(3):
            orders = []
            for idx in ident:
                p = list(idx)
                rng.shuffle(p)
                orders.append(p)
            specs.append(glob_specs(w, orders, None))
            meta.append((i, "reorder", orders))
        mi = rng.randrange(len(w["models"]))
        dup = (mi, rng.randrange(len(w["models"][mi][1])))
        specs.append(glob_specs(w, ident, dup))
        meta.append((i, "dup", dup))
    recs = [unwrap(r) for r in pool.map("simenv:job_cli", specs, timeout=120)]
    stats["runs"] = len(recs)
    base = {}
    for (i, kind, plan), rec, spec in zip(meta, recs, specs):
        if kind == "base":
            base[i] = (rec, spec)
    for (i, kind, plan), rec, spec in zip(meta, recs, specs):
        if kind == "base":
            continue
        b, bspec = base[i]
        if b["status"] != 0 or rec["status"] != 0 or "canon" not in b or "canon" not in rec:
            stats["skipped_failing"] += 1
            continue
        stats["compared"] += 1
        if kind == "reorder" and any(p != sorted(p) for p in plan):
            stats["reordered"] += 1
            distinct.add(seeds.digest(["glob", i, plan]))
        if kind == "dup":
            stats["duplicated"] += 1
            distinct.add(seeds.digest(["glob", i, plan]))
        if b["canon"]["canon"] != rec["canon"]["canon"]:
            a_, b_ = {"text": b["canon"]}, {"text": rec["canon"]}
            rep.violation("glob:" + key_of(a_, b_), {
                "channel": "glob", "base_spec": bspec, "variant_spec": spec, "plan": plan,
                "base_graph": b["canon"]["readable"], "variant_graph": rec["canon"]["readable"],
                "clause": "canonical model graph under reordered / duplicated file deliveries == base",
            }, f"glob channel ({kind} {plan}): " + describe(a_, b_))
    return stats


def evaluate_pair(pool, w, plan):
    var = apply_plan(w["models"], plan)
    r = [unwrap(x) for x in pool.map("pipeline:job_infer_canon", [{"models": w["models"], "options": w["options"]},
                                                                 {"models": var, "options": w["options"]}])]
    return r[0], r[1]


def minimise(pool, w, plan, key):
    budget = shrink.Budget(400)

    def norm_plan(c, plan):
        out = []
        for (name, samples), p in zip(c["models"], plan):
            n = len(samples)
            perm = [i for i in p["perm"] if i < n]
            perm += [i for i in range(n) if i not in perm]
            out.append({"perm": perm, "dups": [[pos, src] for pos, src in p["dups"] if src < n]})
        return out

    state = {"plan": plan}

    def test_batch(cands):
        # a candidate workload keeps failing under (a normalised form of) the plan, its reverse or one duplicate
        jobs, idx = [], []
        for ci, c in enumerate(cands):
            if len(c["models"]) != len(w["models"]) and len(c["models"]) != len(state["plan"]):
                pl = [{"perm": list(range(len(s)))[::-1], "dups": []} for _, s in c["models"]]
            else:
                pl = norm_plan(c, state["plan"][:len(c["models"])])
            c["_plan"] = pl
            jobs.append({"models": c["models"], "options": c["options"]})
            jobs.append({"models": apply_plan(c["models"], pl), "options": c["options"]})
        res = [unwrap(r) for r in pool.map("pipeline:job_infer_canon", jobs)]
        out = []
        for ci, c in enumerate(cands):
            a, b = res[2 * ci], res[2 * ci + 1]
            out.append(differs(a, b) and key_of(a, b) == key)
        return out

    w0 = copy.deepcopy(w)
    w0["_plan"] = plan
    small = shrink.shrink_workload(w0, test_batch, budget)
    splan = small.pop("_plan", None) or norm_plan(small, plan)
    # simplify the plan: drop duplicates, then try plain reversal / a single swap
    for cand in ([{"perm": p["perm"], "dups": []} for p in splan],
                 [{"perm": list(range(len(s)))[::-1], "dups": []} for _, s in small["models"]]):
        a, b = evaluate_pair(pool, small, cand)
        if differs(a, b):
            splan = cand
            break
    a, b = evaluate_pair(pool, small, splan)
    if not differs(a, b):
        small, splan = w, plan
        a, b = evaluate_pair(pool, small, splan)
    small.pop("_plan", None)
    return small, splan, a, b


def replay(ctx, payload):
    if payload.get("channel") == "glob":
        with Pool(2, instrument=True) as pool:
            a, b = [unwrap(r) for r in pool.map("simenv:job_cli", [payload["base_spec"], payload["variant_spec"]])]
            if "canon" in a and "canon" in b and a["canon"]["canon"] != b["canon"]["canon"]:
                return True, describe({"text": a["canon"]}, {"text": b["canon"]})
        return False, "graphs equal"
    with Pool(2, instrument=True) as pool:
        a, b = evaluate_pair(pool, payload["workload"], payload["plan"])
        if differs(a, b):
            return True, describe(a, b)
    return False, "graphs equal"
