"""Library pipeline driver, executed inside worker children (the package is already imported by the zygote)."""
import re

from json_to_models.dynamic_typing import (
    BooleanString, FloatString, IntString, IsoDateString, IsoDatetimeString, IsoTimeString,
    StringSerializableRegistry,
)
from json_to_models.generator import MetadataGenerator
from json_to_models.models.attr import AttrsModelCodeGenerator
from json_to_models.models.base import GenericModelCodeGenerator, generate_code
from json_to_models.models.dataclasses import DataclassModelCodeGenerator
from json_to_models.models.pydantic import PydanticModelCodeGenerator
from json_to_models.models.sqlmodel import SqlModelCodeGenerator
from json_to_models.models.structure import compose_models, compose_models_flat
from json_to_models.registry import (
    ModelFieldsEquals, ModelFieldsNumberMatch, ModelFieldsPercentMatch, ModelRegistry,
)

from .simset import SCHED

GENERATORS = {
    "base": GenericModelCodeGenerator,
    "attrs": AttrsModelCodeGenerator,
    "dataclasses": DataclassModelCodeGenerator,
    "pydantic": PydanticModelCodeGenerator,
    "sqlmodel": SqlModelCodeGenerator,
}
STRUCTURES = {"flat": compose_models_flat, "nested": compose_models}
_STR_CLS = {"int": IntString, "float": FloatString, "bool": BooleanString,
            "date": IsoDateString, "time": IsoTimeString, "datetime": IsoDatetimeString}
_HEX = re.compile(r"0x[0-9a-fA-F]+")


def build_str_registry(names):
    r = StringSerializableRegistry()
    for n in names:
        cls = _STR_CLS[n]
        if cls is FloatString:
            r.add(replace_types=(IntString,), cls=cls)
        else:
            r.add(cls=cls)
    return r


def make_cmps(merge):
    out = []
    for m in (merge or []):  # None / [] -> ModelRegistry() falls back to its default comparators
        name, _, arg = m.partition("_")
        if name == "percent":
            out.append(ModelFieldsPercentMatch(float(arg) / 100) if arg else ModelFieldsPercentMatch())
        elif name == "number":
            out.append(ModelFieldsNumberMatch(int(arg)) if arg else ModelFieldsNumberMatch())
        elif name == "exact":
            out.append(ModelFieldsEquals())
        else:
            raise ValueError(m)
    return out


def gen_kwargs(options):
    kw = dict(
        post_init_converters=bool(options.get("post_init_converters", False)),
        convert_unicode=bool(options.get("convert_unicode", True)),
        max_literals=int(options.get("max_literals", 10)),
    )
    if options.get("framework") in ("attrs", "dataclasses") and options.get("meta"):
        kw["meta"] = True
    ts = options.get("types_style")
    if ts:
        # explicit per-call style overrides (library API): {"StringLiteral": {...}, "StringSerializable": {...}}
        from json_to_models.dynamic_typing import StringLiteral, StringSerializable
        cls = {"StringLiteral": StringLiteral, "StringSerializable": StringSerializable}
        kw["types_style"] = {cls[k]: dict(v) for k, v in ts.items()}
    return kw


def outcome(fn, *a, **kw):
    """Outcome of a pipeline call: text, or (exception type, first message line with addresses masked)."""
    from .crash import InjectedCrash
    try:
        return {"text": fn(*a, **kw)}
    except InjectedCrash as e:
        return {"crash": str(e)}
    except Exception as e:  # noqa - a raising generation is an outcome, not a harness error
        msg = str(e).split("\n", 1)[0]
        if isinstance(e, RecursionError):
            msg = "<recursion limit>"  # where exactly the limit is hit is not part of the outcome
        return {"exc": type(e).__name__, "msg": _HEX.sub("0x?", msg)[:300]}


def narrow_str_registry(obj, base, names):
    """What a caller does who keeps ONE registry object and switches string types off between generations."""
    for n in base:
        if n not in names and _STR_CLS[n] in obj:
            obj.remove(_STR_CLS[n])
    return obj


def infer(models, options, str_registry_obj=None, gen_obj=None, cmps_obj=None):
    """samples -> merged, named ModelRegistry (the part of the pipeline before layout).
    gen_obj / cmps_obj: a MetadataGenerator / a list of comparator objects that the caller re-uses for several
    generations (built by an earlier call with the same options)."""
    st = options.get("str_types", ["int", "float", "bool"])
    gen = gen_obj if gen_obj is not None else MetadataGenerator(
        # "default": the process-global default registry (what a library user gets without passing one)
        str_types_registry=str_registry_obj if str_registry_obj is not None else
        None if st == "default" else build_str_registry(st),
        dict_keys_regex=[rf"^{r}$" for r in options.get("dict_keys_regex", [])],
        dict_keys_fields=list(options.get("dict_keys_fields", [])),
    )
    reg = ModelRegistry(*(cmps_obj if cmps_obj is not None else
                          make_cmps(options.get("merge", ["percent", "number"]))))  # (merge None -> ModelRegistry())
    for name, samples in models:
        meta = gen.generate(*samples)
        reg.process_meta_data(meta, name)
    reg.merge_models(gen)
    reg.generate_names()
    return gen, reg


def render(reg, options, structure=None, framework=None, kwargs_obj=None):
    """kwargs_obj: an existing class_generator_kwargs dict to pass AS IS (a caller re-using one options object)."""
    structure = structure or options.get("structure", "flat")
    o = dict(options)
    if framework:
        o["framework"] = framework
    return generate_code(
        STRUCTURES[structure](reg.models_map),
        GENERATORS[o.get("framework", "base")],
        class_generator_kwargs=kwargs_obj if kwargs_obj is not None else gen_kwargs(o),
        preamble=options.get("preamble") or None,
    )


def full(models, options, structure=None):
    gen, reg = infer(models, options)
    return render(reg, options, structure)


def set_schedule(sched):
    """sched: None/identity, or {"mode": "random", "seed": s, "enabled": [...]|None, "pinned": [...]}"""
    if not sched or sched.get("mode", "identity") == "identity":
        SCHED.reset("identity")
    else:
        SCHED.reset("random", seed=sched.get("seed", 0), enabled=sched.get("enabled"), pinned=sched.get("pinned", ()))


def sched_report():
    return {"points": SCHED.points, "sites": dict(SCHED.counts), "trace": list(SCHED.trace),
            "foreign": SCHED.foreign, "unorderable": list(SCHED.unorderable)}


def job_full(args):
    """args: {models, options, sched?, structures?} -> {outcomes: {structure: outcome}, sched: report}"""
    out = {}
    for s in args.get("structures") or [args["options"].get("structure", "flat")]:
        set_schedule(args.get("sched"))
        out[s] = outcome(full, args["models"], args["options"], s)
        out[s + "#sched"] = sched_report()
    return out


# ---- canonical model graph (C07 oracle) -----------------------------------------------------------------------------
_SUFFIX = re.compile(r"_\d+[A-Z]$")


def _shape(t):
    """Type shape as a tree: unions and literal sets are unordered (sorted at render time, *after* model references
    have been replaced by colours), model references are holes ("ref", index)."""
    from inspect import isclass
    from json_to_models.dynamic_typing import (DDict, DList, DOptional, DTuple, DUnion, ModelMeta, ModelPtr, Null,
                                               StringLiteral, Unknown)
    if isclass(t):
        return ("cls", t.__name__)
    if t is Null:
        return ("null",)
    if t is Unknown:
        return ("unknown",)
    if isinstance(t, ModelPtr):
        return ("ref", t.type.index)
    if isinstance(t, ModelMeta):
        return ("ref", t.index)
    if isinstance(t, DOptional):
        return ("opt", _shape(t.type))
    if isinstance(t, DUnion):
        return ("union", [_shape(x) for x in t.types])
    if isinstance(t, DTuple):
        return ("tuple", [_shape(x) for x in t.types])
    if isinstance(t, DList):
        return ("list", _shape(t.type))
    if isinstance(t, DDict):
        return ("dict", _shape(t.type))
    if isinstance(t, StringLiteral):
        if t.overflowed:
            return ("cls", "str")
        return ("lit", sorted(t.literals))
    if isinstance(t, dict):
        return ("rawdict", sorted((k, _shape(v)) for k, v in t.items()))
    return ("other", type(t).__name__)


def _render(sh, ref):
    k = sh[0]
    if k == "cls":
        return sh[1]
    if k in ("null", "unknown"):
        return k
    if k == "ref":
        return "@" + ref(sh[1])
    if k in ("opt", "list", "dict"):
        return f"{k}({_render(sh[1], ref)})"
    if k == "union":
        return "union{" + "|".join(sorted(set(_render(x, ref) for x in sh[1]))) + "}"
    if k == "tuple":
        return "tuple(" + ",".join(_render(x, ref) for x in sh[1]) + ")"
    if k == "lit":
        return "lit{" + "|".join(repr(x) for x in sh[1]) + "}"
    if k == "rawdict":
        return "rawdict{" + ",".join(f"{a}:{_render(b, ref)}" for a, b in sh[1]) + "}"
    return f"{k}:{sh[1]}"


def canonical_graph(reg):
    """Multiset of model colours after colour refinement (isomorphism invariant; see DESIGN.md 4.2)."""
    from json_to_models.dynamic_typing import DOptional
    import hashlib
    models = list(reg.models)
    desc, names = {}, {}
    for m in models:
        fields = []
        for fname, ftype in m.type.items():
            opt = isinstance(ftype, DOptional)
            fields.append((fname, opt, _shape(ftype.type if opt else ftype)))
        names[m.index] = _SUFFIX.sub("", m.name or "")
        desc[m.index] = fields

    def colours(ref):
        out = {}
        for ix, fields in desc.items():
            body = sorted((f, o, _render(sh, ref)) for f, o, sh in fields)
            out[ix] = hashlib.sha1(repr((names[ix], body)).encode()).hexdigest()[:12]
        return out

    colour = colours(lambda ix: "")
    for _ in range(len(models)):  # fixed number of rounds (a function of the model count): isomorphic graphs agree
        prev = colour
        colour = colours(lambda ix: prev.get(ix, "?"))
    readable = []
    for ix, fields in desc.items():
        body = sorted(f"{f}{'?' if o else ''}: " + _render(sh, lambda i: names.get(i, "?")) for f, o, sh in fields)
        readable.append(f"{names[ix]} {{ " + "; ".join(body) + " }")
    return {"canon": sorted(colour.values()), "readable": sorted(readable)}


def job_infer_canon(args):
    """args: {models, options} -> {"canon":..., "readable":..., "merges": n} or {"exc":...}"""
    set_schedule(None)

    def go():
        gen, reg = infer(args["models"], args["options"])
        return canonical_graph(reg)

    out = outcome(go)
    out["sched"] = {"points": SCHED.points}
    return out
