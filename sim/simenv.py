"""SimEnv: run json_to_models.cli.main() in-process behind simulated seams (runs inside a forked worker child).

Seams (all module globals of json_to_models.cli, no source hook):
  cli.Path      -> PosixPath subclass: glob() returns the real matches in scheduler-chosen order; open() goes through
                   the fault plan and the event log
  cli.open      -> output file opener going through the fault plan and the event log
  cli.datetime  -> simulated clock
  cli.ModelRegistry -> subclass that records the registry instance (for graph oracles)
  sys.argv / sys.stdout / sys.stderr / exit status
State faults are realised in a real scratch directory before the run; dynamic faults are injected by the interposed
file objects at a scheduled operation and counted only when they fire.
"""
import base64
import builtins
import datetime as _dt
import errno
import io
import os
import pathlib
import random
import shutil
import sys
import tempfile

from .crash import CrashTracer, InjectedCrash

SCRATCH_ROOT = "/dev/shm" if os.path.isdir("/dev/shm") and os.access("/dev/shm", os.W_OK) else None


def b64(b: bytes) -> str:
    return base64.b64encode(b).decode("ascii")


def unb64(s: str) -> bytes:
    return base64.b64decode(s.encode("ascii"))


class Events:
    def __init__(self):
        self.seq = 0
        self.log = []

    def add(self, kind, *detail):
        self.seq += 1
        self.log.append([self.seq, kind, *detail])


class SimClock:
    """Simulated wall clock: start instant plus a list of per-read offsets (jumps, skew)."""

    def __init__(self, spec, events):
        spec = spec or {}
        self.t = float(spec.get("start", 1_700_000_000))
        self.steps = list(spec.get("steps", [0]))
        self.reads = 0
        self.events = events
        self.first = self.last = None

    def now(self):
        step = self.steps[min(self.reads, len(self.steps) - 1)] if self.steps else 0
        self.t += step
        self.reads += 1
        try:
            d = _dt.datetime.fromtimestamp(self.t)
        except (OverflowError, OSError, ValueError):
            d = _dt.datetime(1970, 1, 1)
        self.first = self.first if self.first is not None else self.t
        self.last = self.t
        self.events.add("clock", self.t)
        return d


class FaultPlan:
    """Dynamic faults: [{"kind": "open_error"|"read_error"|"write_error"|"close_error", "path": basename or "*out",
    "errno": "EIO", "after": n}]"""

    def __init__(self, faults, events):
        self.faults = [dict(f, fired=0) for f in (faults or [])]
        self.events = events

    def match(self, kind, path, is_output=False):
        base = os.path.basename(str(path))
        for f in self.faults:
            if f["kind"] != kind:
                continue
            if f["path"] == base or (f["path"] == "*out" and is_output) or f["path"] == str(path):
                return f
        return None

    def fire(self, f, path):
        f["fired"] += 1
        code = getattr(errno, f.get("errno", "EIO"))
        self.events.add("fault", f["kind"], os.path.basename(str(path)), f.get("errno", "EIO"))
        raise OSError(code, os.strerror(code), str(path))


class SimFile:
    """Wraps a real file object; logs operations; injects read/write/close errors."""

    def __init__(self, real, path, env, is_output=False):
        self._f = real
        self._path = path
        self._env = env
        self._out = is_output
        self._count = 0
        self._writes = 0
        self.name = getattr(real, "name", str(path))

    def _read_fault(self, n):
        f = self._env.plan.match("read_error", self._path, self._out)
        if f is not None and not f["fired"] and self._count + n > f.get("after", 0):
            self._env.plan.fire(f, self._path)

    def read(self, size=-1):
        data = self._f.read(size)
        self._read_fault(len(data) if data else 1)
        self._count += len(data)
        self._env.events.add("read", os.path.basename(str(self._path)), len(data))
        return data

    def readline(self, *a):
        data = self._f.readline(*a)
        self._read_fault(len(data) if data else 1)
        self._count += len(data)
        return data

    def readlines(self, *a):
        return list(self)

    def __iter__(self):
        return self

    def __next__(self):
        line = self.readline()
        if not line:
            self._env.events.add("read", os.path.basename(str(self._path)), self._count)
            raise StopIteration
        return line

    def write(self, data):
        self._writes += 1
        f = self._env.plan.match("write_error", self._path, self._out)
        if f is not None and not f["fired"] and self._writes > f.get("after", 0):
            if f.get("partial") and data:
                self._f.write(data[:max(1, len(data) // 2)])
                self._f.flush()
            self._env.plan.fire(f, self._path)
        n = self._f.write(data)
        self._env.events.add("write", os.path.basename(str(self._path)), len(data))
        return n

    def close(self):
        was_closed = self._f.closed
        self._f.close()
        if not was_closed:
            self._env.events.add("close", os.path.basename(str(self._path)))
            f = self._env.plan.match("close_error", self._path, self._out)
            if f is not None and not f["fired"]:
                self._env.plan.fire(f, self._path)

    def __enter__(self):
        return self

    def __exit__(self, *a):
        self.close()
        return False

    def __getattr__(self, item):
        return getattr(self._f, item)


class SimEnv:
    def __init__(self, spec):
        self.spec = spec
        self.events = Events()
        self.plan = FaultPlan(spec.get("faults"), self.events)
        self.clock = SimClock(spec.get("clock"), self.events)
        self.dir = None
        self.registries = []
        self.canon = None
        self.tracer = None
        self.glob_calls = []
        self.glob_rng = random.Random(spec.get("glob_seed", 0))

    # ---- file system state ------------------------------------------------------------------------------------
    def setup_fs(self):
        self.dir = tempfile.mkdtemp(prefix="j2m-sim-", dir=SCRATCH_ROOT)
        for rel, f in (self.spec.get("files") or {}).items():
            p = os.path.join(self.dir, rel)
            os.makedirs(os.path.dirname(p), exist_ok=True)
            kind = f.get("kind", "file")
            if kind == "dir":
                os.makedirs(p, exist_ok=True)
            elif kind == "symlink_dangling":
                os.symlink(os.path.join(self.dir, "__nowhere__"), p)
            elif kind == "missing":
                pass
            else:
                data = unb64(f["b64"]) if "b64" in f else f.get("text", "").encode("utf-8")
                with open(p, "wb") as fh:
                    fh.write(data)
        return self.dir

    def subst(self, s):
        return s.replace("{DIR}", self.dir) if isinstance(s, str) else s

    # ---- seams ------------------------------------------------------------------------------------------------
    def make_path_class(self):
        env = self
        base = type(pathlib.Path())

        class SimPath(base):
            def glob(self, pattern, **kw):
                real = sorted(super().glob(pattern, **kw), key=str)
                order = env.spec.get("glob_order")
                idx = list(range(len(real)))
                call_no = len(env.glob_calls)
                if order is not None and call_no < len(order) and sorted(order[call_no]) == idx:
                    idx = list(order[call_no])
                elif order is None and env.spec.get("glob_seed") is not None:
                    env.glob_rng.shuffle(idx)
                env.glob_calls.append(idx)
                env.events.add("glob", str(self), pattern, [os.path.basename(str(real[i])) for i in idx])
                return iter([real[i] for i in idx])

            def open(self, mode="r", *a, **kw):
                env.events.add("open", os.path.basename(str(self)), mode)
                f = env.plan.match("open_error", self)
                if f is not None and not f["fired"]:
                    env.plan.fire(f, self)
                return SimFile(super().open(mode, *a, **kw), self, env)

        return SimPath

    def sim_open(self, file, mode="r", *a, **kw):
        is_out = any(c in mode for c in "wax+")
        cnt = self.tracer.count if getattr(self, "tracer", None) is not None else None
        self.events.add("open_out" if is_out else "open", os.path.basename(str(file)), mode, cnt)
        f = self.plan.match("open_error", file, is_out)
        if f is not None and not f["fired"]:
            self.plan.fire(f, file)
        return SimFile(builtins.open(file, mode, *a, **kw), file, self, is_output=is_out)

    # ---- run ---------------------------------------------------------------------------------------------------
    def apply_files(self, update):
        """Change the scratch file system between two commands of one process (durable state that changed)."""
        for rel, f in (update or {}).items():
            p = os.path.join(self.dir, rel)
            old_times = None
            if f.get("keep_mtime") and os.path.isfile(p):
                st = os.stat(p)
                old_times = (st.st_atime_ns, st.st_mtime_ns)
            if os.path.islink(p) or os.path.isfile(p):
                os.unlink(p)
            elif os.path.isdir(p):
                shutil.rmtree(p)
            kind = f.get("kind", "file")
            if kind == "missing":
                continue
            os.makedirs(os.path.dirname(p), exist_ok=True)
            if kind == "dir":
                os.makedirs(p, exist_ok=True)
            elif kind == "symlink_dangling":
                os.symlink(os.path.join(self.dir, "__nowhere__"), p)
            else:
                with open(p, "wb") as fh:
                    fh.write(unb64(f["b64"]) if "b64" in f else f.get("text", "").encode("utf-8"))
                if old_times:
                    os.utime(p, ns=old_times)  # same size class of change, same timestamps: only the content differs

    def run(self, reuse_dir=False):
        import json_to_models.cli as cli
        env = self
        if not reuse_dir:
            self.setup_fs()
        argv = [self.subst(a) for a in self.spec["argv"]]
        out_path = self.subst(self.spec.get("out_path")) if self.spec.get("out_path") else None
        existing = self.spec.get("out_existing_b64")
        if out_path and existing is not None:
            with open(out_path, "wb") as fh:
                fh.write(unb64(existing))

        # Simulated clock seam, robust against how the CLI imports it: a datetime.datetime SUBCLASS whose now() /
        # utcnow() / today() read the simulated clock (everything else is the real class), and - if the module global
        # `datetime` is the module rather than the class - a shim namespace carrying that subclass.
        class Clock(_dt.datetime):
            @classmethod
            def now(cls, tz=None):
                return env.clock.now()

            @classmethod
            def utcnow(cls):
                return env.clock.now()

            @classmethod
            def today(cls):
                return env.clock.now()

        class CapturingRegistry(getattr(cli, "ModelRegistry", object)):
            def __init__(self, *a, **kw):
                super().__init__(*a, **kw)
                env.registries.append(self)

            def generate_names(self):
                super().generate_names()
                if env.spec.get("canon"):
                    # canonical graph of what was inferred, taken BEFORE code generation rewrites the class names
                    from .pipeline import canonical_graph
                    env.canon = canonical_graph(self)

        saved = {k: getattr(cli, k, None) for k in ("Path", "datetime", "ModelRegistry")}
        had_open = "open" in cli.__dict__
        old_argv, old_out, old_err, old_cwd = sys.argv, sys.stdout, sys.stderr, os.getcwd()
        if saved.get("Path") is not None:
            cli.Path = self.make_path_class()
        import types as _types

        class ClockDate(_dt.date):
            @classmethod
            def today(cls):
                return env.clock.now().date()

        # the same simulated clock for every other module of the package that imported datetime / date by name
        other_saved = []
        for mname, mod in list(sys.modules.items()):
            if mod is None or mod is cli or not (mname == "json_to_models" or mname.startswith("json_to_models.")):
                continue
            for attr, repl in (("datetime", Clock), ("date", ClockDate)):
                cur = vars(mod).get(attr)
                if cur is _dt.datetime and attr == "datetime" or cur is _dt.date and attr == "date":
                    other_saved.append((mod, attr, cur))
                    setattr(mod, attr, repl)
        if isinstance(saved.get("datetime"), _types.ModuleType):
            shim = _types.SimpleNamespace(**{k: v for k, v in vars(saved["datetime"]).items() if not k.startswith("__")})
            shim.datetime = Clock
            cli.datetime = shim
        elif saved.get("datetime") is not None:
            cli.datetime = Clock
        if saved.get("ModelRegistry") is not None:
            cli.ModelRegistry = CapturingRegistry
        cli.open = self.sim_open
        os.environ.pop("TRAVIS", None)
        os.environ.pop("FORCE_COVERAGE", None)
        sys.argv = [self.spec.get("argv0", "json_to_models")] + argv
        class _Out(io.StringIO):
            first_write_at = None

            def write(self, text):
                if self.first_write_at is None and text and env.tracer is not None:
                    self.first_write_at = env.tracer.count
                return super().write(text)

        sys.stdout = out = _Out()
        sys.stderr = err = io.StringIO()
        os.chdir(self.dir)
        status, exc = 0, None
        tracer = None
        if self.spec.get("syspath"):
            sys.path.insert(0, self.dir)
        old_fsize = None
        if self.spec.get("fsize_limit") is not None:
            # a REAL limit on the size of files this process may write (the kernel cuts writes short / fails them with
            # EFBIG; CPython ignores SIGXFSZ): reaches every way of writing a file, not only the interposed open()
            import resource
            old_fsize = resource.getrlimit(resource.RLIMIT_FSIZE)
            resource.setrlimit(resource.RLIMIT_FSIZE, (int(self.spec["fsize_limit"]), old_fsize[1]))
        try:
            try:
                if self.spec.get("crash_at") is not None or self.spec.get("count_lines"):
                    tracer = self.tracer = CrashTracer(self.spec.get("crash_at"),
                                                       watch=("run", "generate_code", "generate", "parse_args"),
                                                       watch_path=out_path if self.spec.get("count_lines") else None)
                    with tracer:
                        cli.main()
                else:
                    cli.main()
            except SystemExit as e:
                code = e.code
                # what the operating system reports: the low 8 bits of an integer code, 1 for any other object
                status = 0 if code is None else ((code & 0xFF) if isinstance(code, int) else 1)
                exc = {"type": "SystemExit", "msg": str(code)}
            except InjectedCrash as e:
                status, exc = 1, {"type": "InjectedCrash", "msg": str(e)}
            except BaseException as e:  # noqa - what the interpreter would turn into exit status 1
                status, exc = 1, {"type": type(e).__name__, "msg": str(e).split("\n", 1)[0][:300]}
        finally:
            if old_fsize is not None:
                import resource
                resource.setrlimit(resource.RLIMIT_FSIZE, old_fsize)
            sys.argv, sys.stdout, sys.stderr = old_argv, old_out, old_err
            os.chdir(old_cwd)
            for mod, attr, cur in other_saved:
                setattr(mod, attr, cur)
            for k, v in saved.items():
                if v is None and not hasattr(cli, k):
                    continue
                if v is None:
                    try:
                        delattr(cli, k)
                    except AttributeError:
                        pass
                else:
                    setattr(cli, k, v)
            if not had_open:
                del cli.open
        rec = {
            "status": status, "exc": exc, "stdout": out.getvalue(), "stderr_tail": err.getvalue()[-400:],
            "events": self.events.log, "glob_calls": self.glob_calls,
            "faults": [{k: v for k, v in f.items()} for f in self.plan.faults],
            "clock": {"reads": self.clock.reads, "first": self.clock.first, "last": self.clock.last},
            "argv": argv, "dir": self.dir,
        }
        if tracer is not None:
            rec["line_events"] = tracer.count
            rec["crash_fired"] = tracer.fired
            rec["marks"] = tracer.marks
            rec["out_changed_at"] = tracer.changed_at
            rec["stdout_first_write_at"] = out.first_write_at
        if out_path:
            if os.path.lexists(out_path) and os.path.isfile(out_path):
                with open(out_path, "rb") as fh:
                    rec["out_b64"] = b64(fh.read())
            else:
                rec["out_b64"] = None
        return rec

    def cleanup(self):
        if self.dir:
            shutil.rmtree(self.dir, ignore_errors=True)


def job_cli_sequence(spec):
    """Two commands in ONE process and one directory: spec (a good command), then spec["then"] = {"files": update,
    "argv": optional other argv, "out_existing_b64": ...}.  Returns the record of the second command (and the first's
    status)."""
    from .pipeline import set_schedule
    set_schedule(None)
    env = SimEnv(spec)
    try:
        first = env.run()
        then = spec["then"]
        env.apply_files(then.get("files"))
        env.spec = dict(spec, argv=then.get("argv", spec["argv"]), faults=None, crash_at=None,
                        out_existing_b64=then.get("out_existing_b64"))
        env.events = Events()
        env.plan = FaultPlan(None, env.events)
        env.glob_calls = []
        second = env.run(reuse_dir=True)
        second["first_status"] = first["status"]
        return second
    finally:
        env.cleanup()


def job_cli(spec):
    """Worker job: one in-process CLI run.  With spec["canon"] also returns the canonical graph of the registry."""
    from .pipeline import set_schedule
    set_schedule(None)
    env = SimEnv(spec)
    try:
        rec = env.run()
        if spec.get("canon") and env.canon is not None and rec["status"] == 0:
            rec["canon"] = env.canon
        return rec
    finally:
        env.cleanup()
