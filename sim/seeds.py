"""One integer decides everything: every PRNG stream is derived from VERIF_SEED by hashing labels."""
import hashlib
import os
import random

DEFAULT_SEED = 20260927


def root_seed() -> int:
    v = os.environ.get("VERIF_SEED", "").strip()
    if not v:
        return DEFAULT_SEED
    try:
        return int(v, 0)
    except ValueError:
        return int.from_bytes(hashlib.sha256(v.encode()).digest()[:8], "big")


def derive_int(*labels) -> int:
    h = hashlib.sha256("\x1f".join(str(x) for x in labels).encode("utf-8")).digest()
    return int.from_bytes(h[:8], "big")


def derive(*labels) -> random.Random:
    return random.Random(derive_int(*labels))


def digest(obj) -> str:
    """Stable short digest of a JSON-able object (sorted keys)."""
    import json
    s = json.dumps(obj, sort_keys=True, ensure_ascii=True, default=str)
    return hashlib.sha256(s.encode()).hexdigest()[:16]
