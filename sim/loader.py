"""Import seam: load `json_to_models` from the working tree under $VERIF_REPO, optionally instrumented.

The finder is put first on `sys.meta_path`; it serves `json_to_models` and every submodule from
`$VERIF_REPO/json_to_models` (default /repo), always compiling from the *current source text* (no bytecode cache is
read or written).  With instrumentation on, the AST is rewritten before compilation:

    {a, b}            ->  __vset__([a, b])
    {f(x) for x in y} ->  __vset__(f(x) for x in y)
    set / frozenset   ->  __vset__ / __vfset__           (name loads only)

Nothing else is touched; files are compiled under their own file name, so line numbers, tracebacks, `linecache` and
trace-function filters are those of the real source.
"""
import ast
import importlib.abc
import importlib.machinery
import importlib.util
import os
import sys

PKG = "json_to_models"


def repo_dir() -> str:
    return os.path.abspath(os.environ.get("VERIF_REPO", "/repo"))


def pkg_dir() -> str:
    return os.path.join(repo_dir(), PKG)


class _SetRewriter(ast.NodeTransformer):
    def __init__(self):
        self.rewrites = 0

    def visit_Set(self, node):
        self.generic_visit(node)
        self.rewrites += 1
        return ast.copy_location(
            ast.Call(func=ast.Name(id="__vset__", ctx=ast.Load()),
                     args=[ast.List(elts=node.elts, ctx=ast.Load())], keywords=[]), node)

    def visit_SetComp(self, node):
        self.generic_visit(node)
        self.rewrites += 1
        return ast.copy_location(
            ast.Call(func=ast.Name(id="__vset__", ctx=ast.Load()),
                     args=[ast.GeneratorExp(elt=node.elt, generators=node.generators)], keywords=[]), node)

    def visit_Name(self, node):
        if isinstance(node.ctx, ast.Load) and node.id in ("set", "frozenset"):
            self.rewrites += 1
            return ast.copy_location(
                ast.Name(id="__vset__" if node.id == "set" else "__vfset__", ctx=ast.Load()), node)
        return node


REWRITES = {}


class _Loader(importlib.machinery.SourceFileLoader):
    instrument = False

    def get_code(self, fullname):
        path = self.get_filename(fullname)
        data = self.get_data(path)
        return self.source_to_code(data, path)

    def source_to_code(self, data, path, *, _optimize=-1):
        tree = ast.parse(data, filename=path)
        if self.instrument:
            rw = _SetRewriter()
            tree = rw.visit(tree)
            ast.fix_missing_locations(tree)
            REWRITES[os.path.relpath(path, pkg_dir())] = rw.rewrites
        return compile(tree, path, "exec", dont_inherit=True, optimize=_optimize)


class _Finder(importlib.abc.MetaPathFinder):
    def __init__(self, instrument):
        self.instrument = instrument
        self.base = pkg_dir()

    def find_spec(self, fullname, path=None, target=None):
        if fullname != PKG and not fullname.startswith(PKG + "."):
            return None
        parts = fullname.split(".")[1:]
        d = os.path.join(self.base, *parts)
        if os.path.isdir(d) and os.path.isfile(os.path.join(d, "__init__.py")):
            fn, is_pkg = os.path.join(d, "__init__.py"), True
        elif os.path.isfile(d + ".py"):
            fn, is_pkg = d + ".py", False
        else:
            return None
        loader = _Loader(fullname, fn)
        loader.instrument = self.instrument
        return importlib.util.spec_from_file_location(
            fullname, fn, loader=loader, submodule_search_locations=[d] if is_pkg else None)


_installed = None


def install(instrument: bool):
    """Install the finder (idempotent) and, if instrumenting, the set seam."""
    global _installed
    if _installed is not None:
        if _installed != instrument:
            raise RuntimeError("loader already installed with a different mode")
        return
    for m in list(sys.modules):
        if m == PKG or m.startswith(PKG + "."):
            raise RuntimeError(f"{m} imported before the loader was installed")
    if not os.path.isfile(os.path.join(pkg_dir(), "__init__.py")):
        raise RuntimeError(f"no json_to_models package under VERIF_REPO={repo_dir()}")
    sys.dont_write_bytecode = True
    from . import simset
    simset.SCHED.pkg_dir = pkg_dir() + os.sep
    if instrument:
        simset.install()
    sys.meta_path.insert(0, _Finder(instrument))
    # the scratch repo (for custom generator modules etc.) must not shadow anything else; keep sys.path as is
    _installed = instrument


def import_all():
    """Import every module of the package (so a zygote is fully warmed and import errors surface early)."""
    import importlib
    base = pkg_dir()
    names = []
    for root, dirs, files in os.walk(base):
        dirs[:] = sorted(d for d in dirs if d != "__pycache__")
        for f in sorted(files):
            if f.endswith(".py"):
                rel = os.path.relpath(os.path.join(root, f), base)[:-3].replace(os.sep, ".")
                if rel.endswith("__init__"):
                    rel = rel[:-len("__init__")].rstrip(".")
                if rel == "__main__":
                    continue
                names.append(PKG + ("." + rel if rel else ""))
    for n in names:
        importlib.import_module(n)
    return names
