"""Crash-point injector: raise at the k-th line event inside frames of the package under test."""
import sys
import threading

from . import loader


class InjectedCrash(Exception):
    pass


class CrashTracer:
    """Counts `line` events in repository frames; raises InjectedCrash at event number `crash_at` (1-based).

    With crash_at=None it only counts (dry run).  `marks` records the event number at which named functions were
    first entered, so that crash points can be biased to interesting places.
    """

    def __init__(self, crash_at=None, watch=(), relative_to=None, watch_path=None):
        """relative_to: name of a watched function; crash_at then counts line events from its first entry."""
        self.prefix = loader.pkg_dir() + "/"
        self.crash_at = crash_at if relative_to is None else None
        self.relative_to = relative_to
        self.offset = crash_at
        if relative_to:
            watch = tuple(watch) + (relative_to,)
        self.count = 0
        self.fired = None
        self.watch = set(watch)
        self.marks = {}
        # watch_path: record the line-event number at which a file (the -o target) is first seen modified
        self.watch_path = watch_path
        self.changed_at = None
        self.sig0 = self._sig() if watch_path else None

    def _sig(self):
        import os
        try:
            st = os.stat(self.watch_path)
            return (st.st_size, st.st_mtime_ns, st.st_ino)
        except OSError:
            return None

    def _global(self, frame, event, arg):
        if event == "call" and frame.f_code.co_filename.startswith(self.prefix):
            name = frame.f_code.co_name
            if name in self.watch and name not in self.marks:
                self.marks[name] = self.count
                if name == self.relative_to and self.offset is not None:
                    self.crash_at = self.count + self.offset
            return self._local
        return None

    def _local(self, frame, event, arg):
        if event == "line":
            self.count += 1
            if self.watch_path is not None and self.changed_at is None and self._sig() != self.sig0:
                self.changed_at = self.count
            if self.crash_at is not None and self.count == self.crash_at and self.fired is None:
                code = frame.f_code
                self.fired = f"{code.co_filename[len(self.prefix):]}:{code.co_name}:{frame.f_lineno}"
                raise InjectedCrash(f"injected crash at line event {self.count} ({self.fired})")
        return self._local

    def __enter__(self):
        sys.settrace(self._global)
        return self

    def __exit__(self, *a):
        sys.settrace(None)
        return False
