"""Worker process ("zygote"): imports the package under test once, then forks one pristine child per job.

Protocol: one JSON object per line on the inherited stdin/stdout (which are re-pointed to private descriptors, so
nothing the system under test prints can corrupt it).  Request {"fn": "module:function", "args": {...},
"timeout": seconds}; response {"ok": <result>} or {"harness_error": "..."}.
"""
import faulthandler
import importlib
import json
import os
import select
import signal
import sys
import time
import traceback


def _resolve(name):
    mod, fn = name.split(":")
    return getattr(importlib.import_module("sim." + mod), fn)


def fork_run(fn_name, args, timeout):
    r, w = os.pipe()
    pid = os.fork()
    if pid == 0:
        # ---- child: pristine copy of the zygote
        code = 0
        try:
            os.close(r)
            faulthandler.dump_traceback_later(max(1.0, timeout - 0.5), exit=True)
            try:
                res = {"ok": _resolve(fn_name)(args)}
            except BaseException:
                res = {"harness_error": "job raised: " + traceback.format_exc()[-3000:]}
            data = json.dumps(res, ensure_ascii=True, default=str).encode()
            off = 0
            while off < len(data):
                off += os.write(w, data[off:off + 65536])
        except BaseException:
            code = 3
        finally:
            os._exit(code)
    os.close(w)
    chunks = []
    deadline = time.monotonic() + timeout
    timed_out = False
    while True:
        left = deadline - time.monotonic()
        if left <= 0:
            timed_out = True
            break
        rl, _, _ = select.select([r], [], [], left)
        if not rl:
            timed_out = True
            break
        b = os.read(r, 1 << 16)
        if not b:
            break
        chunks.append(b)
    os.close(r)
    if timed_out:
        try:
            os.kill(pid, signal.SIGKILL)
        except ProcessLookupError:
            pass
    _, status = os.waitpid(pid, 0)
    if timed_out:
        return {"harness_error": f"job timeout after {timeout}s ({fn_name})"}
    data = b"".join(chunks)
    if not data and time.monotonic() >= deadline - 1.5:
        # the child's own watchdog (faulthandler.dump_traceback_later(..., exit=True)) fired just before the deadline
        return {"harness_error": f"job timeout after {timeout}s ({fn_name})"}
    if not data:
        return {"harness_error": f"job child died, wait status {status} ({fn_name})"}
    try:
        return json.loads(data)
    except ValueError:
        return {"harness_error": f"job child wrote garbage, wait status {status}"}


def main():
    instrument = os.environ.get("J2M_VERIF_INSTRUMENT", "0") == "1"
    # private protocol descriptors
    pin = os.fdopen(os.dup(0), "r", encoding="utf-8")
    pout = os.fdopen(os.dup(1), "w", encoding="utf-8")
    devnull = os.open(os.devnull, os.O_RDWR)
    os.dup2(devnull, 0)
    os.dup2(2, 1)  # stray prints go to stderr
    sys.path.insert(0, os.path.dirname(os.path.dirname(os.path.abspath(__file__))))
    from sim import loader
    try:
        if instrument:
            # cooperative lock wrappers must exist before the code under test (and its libraries) create their locks
            from sim import threads as _threads
            _threads.install_coop_locks()
        loader.install(instrument)
        loader.import_all()
        for m in ("pipeline", "workload", "threads", "crash", "simenv",
                  "checks.c06", "checks.c07", "checks.c14", "checks.c15", "checks.c16", "checks.c17"):
            try:
                importlib.import_module("sim." + m)
            except ModuleNotFoundError as e:
                if not (e.name or "").startswith("sim"):
                    raise
        hello = {"hello": True, "pid": os.getpid(), "instrument": instrument,
                 "hashseed": os.environ.get("PYTHONHASHSEED"), "rewrites": loader.REWRITES}
    except BaseException:
        hello = {"hello": False, "harness_error": "worker start failed: " + traceback.format_exc()[-3000:]}
    pout.write(json.dumps(hello) + "\n")
    pout.flush()
    if not hello["hello"]:
        return 2
    for line in pin:
        line = line.strip()
        if not line:
            continue
        req = json.loads(line)
        if req.get("op") == "quit":
            break
        res = fork_run(req["fn"], req.get("args"), float(req.get("timeout", 60)))
        pout.write(json.dumps(res, ensure_ascii=True) + "\n")
        pout.flush()
    return 0


if __name__ == "__main__":
    sys.exit(main())
