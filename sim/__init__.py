"""Deterministic simulation harness for json2python-models (see /verif/DESIGN.md)."""
ENGINE_VERSION = 1
