"""Evidence files, known findings, replay files and the exit protocol shared by all checks."""
import json
import os
import re
import sys
import time

from . import ENGINE_VERSION
from .seeds import digest

VERIF_DIR = os.path.dirname(os.path.dirname(os.path.abspath(__file__)))
EVIDENCE_DIR = os.environ.get("VERIF_EVIDENCE_DIR") or os.path.join(VERIF_DIR, "evidence")
REPLAY_DIR = os.environ.get("VERIF_REPLAY_DIR") or os.path.join(VERIF_DIR, "replays")
FINDINGS_FILE = os.path.join(VERIF_DIR, "KNOWN_FINDINGS.txt")

REAL_COMPONENTS = [
    "json_to_models (source of the working tree; set constructors re-pointed only in instrumented workers)",
    "Jinja2", "inflection", "unidecode", "dateutil", "ruamel.yaml", "configparser", "argparse", "CPython threads",
]
STUB_COMPONENTS = [
    "set/frozenset iteration order (instrumented workers)", "ModelPtr addresses (real-interpreter workers)",
    "wall clock (cli.datetime)", "directory enumeration order (cli.Path.glob)",
    "file-open objects (wrapping real files)", "argv/stdout/exit status (in-process CLI runs)",
    "sqlmodel/pydantic are never imported (only text is produced)",
]


class Finding:
    def __init__(self, kind, prop, key, text):
        self.kind, self.prop, self.key, self.text = kind, prop, key, text


def load_findings(prop_id):
    """Parse KNOWN_FINDINGS.txt; returns the list of `known:` entries for this property (fixed: lines suppress nothing)."""
    out = []
    if not os.path.exists(FINDINGS_FILE):
        return out
    with open(FINDINGS_FILE, encoding="utf-8") as f:
        for line in f:
            line = line.strip()
            if not line or line.startswith("#"):
                continue
            m = re.match(r"known:\s+property=(\S+)\s+key=(\S+)\s+(.*)$", line)
            if m and m.group(1) == prop_id:
                out.append(Finding("known", m.group(1), m.group(2), m.group(3)))
    return out


def write_replay(prop_id, seed, payload) -> str:
    os.makedirs(REPLAY_DIR, exist_ok=True)
    payload = dict(payload)
    payload.setdefault("property", prop_id)
    payload.setdefault("engine_version", ENGINE_VERSION)
    payload.setdefault("root_seed", seed)
    name = f"{prop_id}-{seed}-{digest(payload)}.json"
    path = os.path.join(REPLAY_DIR, name)
    with open(path, "w", encoding="utf-8") as f:
        # NOTE: never sort keys here - the key order of sample objects is part of the input
        json.dump(payload, f, indent=1, ensure_ascii=False)
    return path


class Reporter:
    def __init__(self, prop_id, tier, seed, level):
        self.prop_id, self.tier, self.seed, self.level = prop_id, tier, seed, level
        self.t0 = time.monotonic()
        self.violations = []  # (key, replay_path, text)
        self.known_seen = {}
        self.known = load_findings(prop_id)

    def violation(self, key, payload, text):
        """Register a (minimised) violation.  key identifies it for the known-findings file."""
        for f in self.known:
            if f.key == key:
                self.known_seen[key] = f.text
                return None
        if any(k == key for k, _, _ in self.violations):
            return None  # same minimised key already reported in this run
        path = write_replay(self.prop_id, self.seed, payload)
        self.violations.append((key, path, text))
        return path

    def finish(self, coverage, assumptions=(), extra=None) -> int:
        wall = time.monotonic() - self.t0
        coverage = dict(coverage)
        coverage.setdefault("components_real", REAL_COMPONENTS)
        coverage.setdefault("components_stub", STUB_COMPONENTS)
        if wall > 0 and coverage.get("evaluations"):
            coverage["runs_per_hour"] = int(coverage["evaluations"] / wall * 3600)
            # every simulated run has its own PRNG streams derived from (VERIF_SEED, property, run index, label)
            coverage["derived_run_seeds_per_hour"] = coverage["runs_per_hour"]
        coverage.setdefault("root_seed_env", "VERIF_SEED")
        coverage["known_findings_seen"] = sorted(self.known_seen)
        ev = {
            "property_id": self.prop_id, "tier": self.tier, "seed": self.seed, "level": self.level,
            "coverage": coverage, "assumptions": list(assumptions), "wall_s": round(wall, 2),
            "violations": len(self.violations), "engine_version": ENGINE_VERSION,
        }
        if extra:
            ev.update(extra)
        os.makedirs(EVIDENCE_DIR, exist_ok=True)
        tmp = os.path.join(EVIDENCE_DIR, f".{self.prop_id}.json.tmp")
        with open(tmp, "w", encoding="utf-8") as f:
            json.dump(ev, f, indent=1, ensure_ascii=False, sort_keys=True, default=str)
        os.replace(tmp, os.path.join(EVIDENCE_DIR, f"{self.prop_id}.json"))
        for key, text in sorted(self.known_seen.items()):
            print(f"KNOWN-FINDING: property={self.prop_id} {text} [key={key}]")
        for key, path, text in self.violations:
            print(f"VIOLATION property={self.prop_id} replay={path}")
            print(f"  what: {text}")
        print(f"{self.prop_id} {self.tier}: evaluations={coverage.get('evaluations')} "
              f"distinct_nontrivial={coverage.get('distinct_nontrivial')} violations={len(self.violations)} "
              f"wall={wall:.1f}s seed={self.seed}")
        sys.stdout.flush()
        return 1 if self.violations else 0
