"""Baton-passing thread scheduler: real threads, exactly one runnable at a time, seeded choice of who runs.

Pre-emption points are `line` events in frames of the package under test (opcode events were tried for the
thread-local context code and dropped: CPython 3.12.1 crashes on them).  The interleaving is exactly the recorded switch list
[(global step, to thread)], which can be replayed or minimised as an explicit list.
"""
import sys
import threading

from . import loader

import _thread

ACTIVE = None  # the Baton currently running threads in this process (at most one)
_REAL_LOCK = threading.Lock
_REAL_RLOCK = threading.RLock


class _RawSem:
    """Binary hand-off primitive on a raw lock (never a cooperative lock: it is the scheduler's own mechanism)."""

    def __init__(self):
        self._l = _thread.allocate_lock()
        self._l.acquire()

    def acquire(self):
        self._l.acquire()

    def release(self):
        self._l.release()


class CoopLock:
    """Wrapper around a real Lock / RLock created by the code under test (or a library).  Outside a simulation it
    behaves exactly like the real lock.  Inside one, a baton thread that would block on it - because a *parked* thread
    holds it - yields the baton (to the owner if known) instead of blocking forever, and retries when it runs again."""

    def __init__(self, real):
        self._real = real
        self._owner = None

    def acquire(self, blocking=True, timeout=-1):
        b = ACTIVE
        me = b.index_of_current() if b is not None else None
        if me is None or not blocking:
            ok = self._real.acquire(blocking, timeout) if blocking else self._real.acquire(False)
            if ok and me is not None:
                self._owner = me
            return ok
        while True:
            if self._real.acquire(False):
                self._owner = me
                return True
            if not b.yield_blocked(me, self._owner):
                # nobody else can run: really block (the holder is not one of the simulated threads)
                ok = self._real.acquire(True, timeout)
                if ok:
                    self._owner = me
                return ok

    def release(self):
        self._real.release()

    def __enter__(self):
        self.acquire()
        return self

    def __exit__(self, *a):
        self.release()

    def locked(self):
        return self._real.locked()

    def __getattr__(self, item):  # _is_owned, _release_save, _acquire_restore, _at_fork_reinit ...
        return getattr(self._real, item)

    def __repr__(self):
        return f"<CoopLock {self._real!r}>"


def install_coop_locks():
    """Make threading.Lock / threading.RLock return cooperative wrappers (call before importing the code under test).
    Objects created before this call keep the real classes."""
    if getattr(threading, "_j2m_coop", False):
        return
    threading.Lock = lambda: CoopLock(_REAL_LOCK())
    threading.RLock = lambda *a, **k: CoopLock(_REAL_RLOCK(*a, **k))
    threading._j2m_coop = True


TARGET_FUNCS = {"__enter__", "__exit__", "inject", "convert_field_name", "convert_class_name", "to_typing_code"}


class Baton:
    def __init__(self, n, rng=None, mean_gap=50, p_target=0.0, replay=None, max_steps=3_000_000, p_first=0.0,
                 extra_prefixes=()):
        self.n = n
        self.rng = rng
        self.mean_gap = max(1, mean_gap)
        self.p_target = p_target
        # bias: pre-empt within the first lines of a function the first time ANY thread executes it in this run
        # (lazy initialisation, first-use caches: the window of a publication race is in the first execution)
        self.p_first = p_first
        self.seen_codes = set()
        # "stalled node" fault: a thread pre-empted by a targeted / first-call switch may be kept off the CPU for a while,
        # so that the other threads pass through the same code while it sits in its window
        self.stall_pending = 0
        self.stalled_until = [0] * n
        # replay: {"first": k, "switches": [[step, from, to], ...], "handoffs": {"from": to}}
        self.replay = None if replay is None else {int(x[0]): int(x[-1]) for x in replay.get("switches", [])}
        self.replay_handoffs = {} if replay is None else {int(k): int(v) for k, v in replay.get("handoffs", {}).items()}
        self.replay_first = None if replay is None else int(replay.get("first", 0))
        self.handoffs = {}
        self.first = None
        self.prefix = loader.pkg_dir() + "/"
        # further directories whose frames are pre-emption points too (libraries holding state that the package shares
        # between threads, e.g. one module-level YAML parser instance)
        self.extra_prefixes = tuple(extra_prefixes)
        self.opcode_file = self.prefix + "dynamic_typing/models_meta.py"
        self.sems = [_RawSem() for _ in range(n)]
        self.idents = {}  # thread ident -> index
        self.done = [False] * n
        self.started = [False] * n
        self.current = None
        self.step = 0
        self.next_switch = None
        self.switches = []  # [step, from, to]
        self.all_done = _RawSem()
        self.max_steps = max_steps
        self.over_budget = False
        self.errors = []
        # reach probes
        self.in_generate_code = [False] * n
        self.in_nonempty_ctx = [False] * n
        self.probe = {"switch_while_2_in_generate_code": 0, "switch_in_context_manager": 0,
                      "switch_in_models_meta": 0, "thread_started_after_other_finished": 0,
                      "opcode_steps": 0, "switch_while_2_nonempty_mappings": 0, "nonempty_mapping_entered": 0}

    # ---- scheduling decisions ------------------------------------------------------------------------------
    def _draw_gap(self):
        if self.replay is not None:
            return
        self.next_switch = self.step + 1 + int(self.rng.expovariate(1.0 / self.mean_gap))

    def _runnable_others(self, me):
        others = [i for i in range(self.n) if i != me and not self.done[i]]
        awake = [i for i in others if self.stalled_until[i] <= self.step]
        return awake or others

    def _switch_to(self, me, to, frame=None):
        self.switches.append([self.step, me, to])
        if frame is not None:
            code = frame.f_code
            if sum(self.in_generate_code) >= 2:
                self.probe["switch_while_2_in_generate_code"] += 1
            if sum(self.in_nonempty_ctx) >= 2:
                self.probe["switch_while_2_nonempty_mappings"] += 1
            if code.co_filename == self.opcode_file:
                self.probe["switch_in_models_meta"] += 1
                if code.co_name in ("__enter__", "__exit__"):
                    self.probe["switch_in_context_manager"] += 1
        if not self.started[to] and any(self.done):
            self.probe["thread_started_after_other_finished"] += 1
        self.current = to
        self.sems[to].release()
        self.sems[me].acquire()

    def _point(self, me, frame):
        self.step += 1
        if self.step > self.max_steps:
            # never raise into the code under test: stop pre-empting, let the threads finish one after the other, and
            # report the run as over budget (the caller skips it)
            self.over_budget = True
            return
        if self.replay is not None:
            to = self.replay.get(self.step)
            if to is not None and to != me and 0 <= to < self.n and not self.done[to]:
                self._switch_to(me, to, frame)
            return
        if self.step >= self.next_switch:
            others = self._runnable_others(me)
            self._draw_gap()
            if others:
                if self.stall_pending:
                    self.stalled_until[me] = self.step + self.stall_pending
                    self.stall_pending = 0
                    self.probe["stalls"] = self.probe.get("stalls", 0) + 1
                self._switch_to(me, self.rng.choice(others), frame)
            else:
                self.stall_pending = 0

    # ---- tracing ---------------------------------------------------------------------------------------------
    def _make_tracer(self, me):
        prefix = self.prefix
        opfile = self.opcode_file

        def local(frame, event, arg):
            if self.over_budget:
                return None
            if event == "line":
                self._point(me, frame)
            elif event == "opcode":
                self.probe["opcode_steps"] += 1
                self._point(me, frame)
            return local

        def glob(frame, event, arg):
            if event != "call" or self.over_budget:
                return None
            code = frame.f_code
            fn = code.co_filename
            if not fn.startswith(prefix):
                if self.extra_prefixes and fn.startswith(self.extra_prefixes):
                    return local
                return None
            name = code.co_name
            if name == "generate_code":
                self.in_generate_code[me] = True
            if fn == opfile:
                # NOTE: opcode-level tracing (frame.f_trace_opcodes) is deliberately NOT enabled: CPython 3.12.1
                # segfaults when it meets an inlined comprehension in such a frame (seen with a seeded change)
                if name == "__enter__":
                    ctx = frame.f_locals.get("self")
                    self.in_nonempty_ctx[me] = bool(getattr(ctx, "context", None))
                    if self.in_nonempty_ctx[me]:
                        self.probe["nonempty_mapping_entered"] += 1
                elif name == "__exit__":
                    self.in_nonempty_ctx[me] = False
            if self.replay is None and self.p_target and name in TARGET_FUNCS \
                    and self.rng.random() < self.p_target:
                self.next_switch = min(self.next_switch, self.step + 1 + self.rng.randrange(3))
            if self.replay is None and self.p_first and code not in self.seen_codes:
                self.seen_codes.add(code)
                if self.rng.random() < self.p_first:
                    self.next_switch = min(self.next_switch, self.step + 1 + self.rng.randrange(6))
                    if self.rng.random() < 0.7:
                        self.stall_pending = self.rng.choice([30, 300, 3000, 30000])
                    self.probe["first_call_preemptions"] = self.probe.get("first_call_preemptions", 0) + 1
            return local

        return glob

    # ---- running ---------------------------------------------------------------------------------------------
    def index_of_current(self):
        return self.idents.get(_thread.get_ident())

    def yield_blocked(self, me, owner):
        """Called by a cooperative lock when baton thread `me` cannot take a lock.  Passes the baton (to the owner if
        it is a runnable simulated thread, else to the lowest-numbered runnable one - a deterministic rule, so that
        replay needs no record of it).  Returns False if no other simulated thread can run."""
        others = [i for i in range(self.n) if i != me and not self.done[i]]
        if not others:
            return False
        to = owner if owner in others else others[0]
        self.probe["blocked_on_lock_yields"] = self.probe.get("blocked_on_lock_yields", 0) + 1
        self.current = to
        self.sems[to].release()
        self.sems[me].acquire()
        return True

    def _thread_main(self, me, fn, results):
        self.idents[_thread.get_ident()] = me
        self.sems[me].acquire()
        self.started[me] = True
        sys.settrace(self._make_tracer(me))
        try:
            results[me] = fn()
        except BaseException as e:  # noqa - harness level; pipeline outcomes are caught inside fn
            results[me] = {"harness_error": f"{type(e).__name__}: {e}"}
        finally:
            sys.settrace(None)
            self.in_generate_code[me] = False
            self.in_nonempty_ctx[me] = False
            self.done[me] = True
            others = self._runnable_others(me)
            if others:
                if self.replay is not None:
                    to = self.replay_handoffs.get(me)
                    if to not in others:
                        to = others[0]
                else:
                    to = self.rng.choice(others)
                self.handoffs[str(me)] = to
                if not self.started[to]:
                    self.probe["thread_started_after_other_finished"] += 1
                self.current = to
                self.sems[to].release()
            else:
                self.all_done.release()

    def run(self, fns, first=None, timeout=120):
        global ACTIVE
        ACTIVE = self
        try:
            return self._run(fns, first, timeout)
        finally:
            ACTIVE = None

    def _run(self, fns, first, timeout):
        results = [None] * self.n
        threads = [threading.Thread(target=self._thread_main, args=(i, fn, results), daemon=True)
                   for i, fn in enumerate(fns)]
        for t in threads:
            t.start()
        if first is None:
            first = self.rng.randrange(self.n) if self.replay is None else self.replay_first
        if not 0 <= first < self.n:
            first = 0
        self.first = first
        self._draw_gap()
        self.current = first
        self.sems[first].release()
        # wait for the last thread (raw lock with a deadline)
        if not self.all_done._l.acquire(True, timeout):
            raise RuntimeError("baton: threads did not finish (deadlock or timeout)")
        for t in threads:
            t.join(5)
        return results

    def schedule(self):
        """The explicit interleaving of this run (replayable)."""
        return {"first": self.first, "switches": self.switches, "handoffs": self.handoffs}
