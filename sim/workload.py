"""Seeded workload generator (swarm style): JSON samples per model name plus an option set.

This is *workload*, not the searched dimension: each check searches schedules / faults / histories on top of it.
It is built around a pool of object shapes reused at several paths, so that registry merging, shared models,
recursive models and comparator thresholds are reached.
"""
import copy
import random

PLAIN_WORDS = ["red", "green", "blue", "on", "off", "idle", "A", "B", "x y", "né", "ok", "a,b", "it's", 'q"t', "a", "b"]
LONG_STR = ["this string is longer than twenty characters", "abcdefghijklmnopqrstuvwxyz", "x" * 20]
KEY_POOLS = {
    "snake": ["id", "name", "user_id", "created_at", "value", "items", "owner", "tags", "count", "data",
              "meta", "child", "children", "parent", "status", "kind", "size", "price", "node", "link"],
    "camel": ["userId", "createdAt", "itemList", "ownerName", "isActive", "HTTPCode", "nodeRef", "subItems"],
    "kebab": ["user-id", "created-at", "x-value", "item-list"],
    "keyword": ["class", "list", "type", "from", "def", "dict", "date", "schema", "None", "pk", "field", "base_model",
                "optional", "any", "union", "literal", "metadata", "registry", "fields", "copy", "json", "model_config"],
    "unicode": ["имя", "größe", "naïve", "数", "ключ"],
    "odd": ["1st", "9lives", "a b", "a.b", "_private", "__dunder__", "$ref", "@id", "x!", "0day", "00x", "2nd_", "_0", "$", "-"],
}
SCALAR_KINDS = ["int", "float", "bool", "null", "str_plain", "str_long", "str_int", "str_float", "str_bool",
                "str_date", "str_datetime", "str_time", "str_time_tz", "str_enum"]
CONTAINER_KINDS = ["list_empty", "list_int", "list_str", "list_mixed", "list_nested", "dict_empty", "dict_like",
                   "dict_mixed_keys"]
ALL_FRAMEWORKS = ["base", "pydantic", "attrs", "dataclasses", "sqlmodel"]
STR_TYPES = ["int", "float", "bool", "date", "time", "datetime"]


def scalar(rng, kind):
    if kind == "int":
        return rng.choice([0, 1, 2, 7, 42, -3, 10 ** 12])
    if kind == "float":
        return rng.choice([0.5, 1.0, -2.25, 3.14, 1e10])
    if kind == "bool":
        return rng.random() < 0.5
    if kind == "null":
        return None
    if kind == "str_plain":
        return rng.choice(PLAIN_WORDS)
    if kind == "str_long":
        return rng.choice(LONG_STR)
    if kind == "str_int":
        return rng.choice(["1", "42", "-7", "007"])
    if kind == "str_float":
        return rng.choice(["1.5", "0.25", "-3.0", "1e5"])
    if kind == "str_bool":
        return rng.choice(["true", "false", "True"])
    if kind == "str_date":
        # (a few look like dates but are not: month 0 / day 30 of February / month 13)
        return rng.choice(["2020-01-02", "1999-12-31"] * 6 + ["0000-00-00", "2021-02-30", "2021-13-01"])
    if kind == "str_datetime":
        return rng.choice(["2020-01-02T03:04:05", "2018-11-30T12:00:00Z"] * 6 + ["2021-02-30T03:04:05", "2020-01-02T25:04:05"])
    if kind == "str_time":
        return rng.choice(["12:30", "03:04:05"])
    if kind == "str_enum":
        # 17 short values: the number of distinct literals of a field straddles the limits (10 default, 15 hard)
        return "v%02d" % rng.randrange(17)
    if kind == "str_time_tz":
        # time-like strings the date parser accepts only with a warning (unknown timezone abbreviation) or not at all
        return rng.choice(["09:30 EST", "10:15 XYZ", "7pm PST", "12:30 UTC", "25:61"])
    raise ValueError(kind)


def collision_twin(key):
    """Another spelling of a key that is renamed to the same Python identifier (snake <-> camel <-> kebab)."""
    import re
    if "_" in key and key.strip("_") == key:
        parts = key.split("_")
        return parts[0] + "".join(p.capitalize() for p in parts[1:])
    if "-" in key:
        return key.replace("-", "_")
    m = re.sub(r"(?<=[a-z0-9])([A-Z])", lambda mo: "_" + mo.group(1).lower(), key)
    if m != key and m.isidentifier():
        return m
    return None


def numeric_twin(v, rng):
    if isinstance(v, bool):
        return int(v) if rng.random() < 0.5 else v
    if isinstance(v, int):
        if v in (0, 1) and rng.random() < 0.3:
            return bool(v)
        return float(v) if abs(v) < 2 ** 53 else v
    if isinstance(v, float) and v.is_integer():
        return int(v)
    if isinstance(v, dict):
        return {k: numeric_twin(x, rng) for k, x in v.items()}
    if isinstance(v, list):
        return [numeric_twin(x, rng) for x in v]
    return v


class Gen:
    def __init__(self, rng: random.Random, knobs=None):
        self.rng = rng
        k = knobs or draw_knobs(rng)
        self.k = k
        keys = []
        for style in k["key_styles"]:
            keys.extend(KEY_POOLS[style])
        rng.shuffle(keys)
        self.keys = keys[:max(4, k["vocab"])]
        self.shapes = []
        self._make_shapes()

    # ---- shapes ---------------------------------------------------------------------------------------------
    def _field_spec(self, shape_id):
        rng, k = self.rng, self.k
        r = rng.random()
        if self.shapes and r < k["p_nested"]:
            return ["obj", rng.randrange(len(self.shapes))]
        if self.shapes and r < k["p_nested"] + k["p_list_obj"]:
            return [rng.choice(["list_obj", "list_obj", "list_obj_mixed"]), rng.randrange(len(self.shapes))]
        if r < k["p_nested"] + k["p_list_obj"] + k["p_self"]:
            return [rng.choice(["obj", "list_obj"]), shape_id]  # recursive
        if rng.random() < k["p_container"] and k["container_kinds"]:
            return ["c", rng.choice(k["container_kinds"])]
        kinds = [rng.choice(k["scalar_kinds"])]
        while rng.random() < k["p_hetero"]:
            kinds.append(rng.choice(k["scalar_kinds"]))
        return ["s", kinds]

    def _make_chain_shapes(self):
        """A non-transitive similarity chain: shape i has the keys window[i : i + w]; neighbours are similar under the
        percent / number comparators, shapes two steps apart are not.  A root shape refers to every member through its
        own (possibly missing) field, so registration order follows the order in which samples introduce the fields."""
        rng = self.rng
        length, w = rng.randint(5, 7), rng.choice([5, 6, 10])
        keys = [f"k{j:02d}" for j in range(length + w)]
        for i in range(length):
            self.shapes.append([[key, ["s", [rng.choice(["int", "str_long", "bool"])]], False] for key in keys[i:i + w]])
        root = [[f"member_{chr(97 + i)}", [rng.choice(["obj", "obj", "list_obj"]), i], True] for i in range(length)]
        rng.shuffle(root)
        self.shapes.append(root)

    def _make_shapes(self):
        rng, k = self.rng, self.k
        if k.get("chain"):
            return self._make_chain_shapes()
        for sid in range(k["n_shapes"]):
            if self.shapes and rng.random() < k["p_variant"]:
                # variant of an existing shape: k-of-n shared keys -> comparator thresholds
                base = rng.choice(self.shapes)
                fields = [list(f) for f in base if rng.random() < 0.8]
                for f in fields:
                    if f[1][0] == "s" and rng.random() < k.get("p_variant_retype", 0.3):
                        alt = {"int": "float", "float": "int", "str_int": "str_float", "str_float": "str_int",
                               "str_plain": "str_long", "bool": "int", "null": "int"}
                        f[1] = ["s", [alt.get(x, x) for x in f[1][1]]]
                    if rng.random() < 0.15:
                        f[2] = not f[2]
                have = {f[0] for f in fields}
                extra = [key for key in self.keys if key not in have]
                rng.shuffle(extra)
                for key in extra[:rng.randrange(0, 3)]:
                    fields.append([key, self._field_spec(sid), rng.random() < k["p_missing"]])
                if rng.random() < 0.5:
                    rng.shuffle(fields)
            else:
                width = rng.randint(1, max(1, k["width"]))
                keys = list(self.keys)
                rng.shuffle(keys)
                fields = [[key, self._field_spec(sid), rng.random() < k["p_missing"]] for key in keys[:width]]
            if not fields:
                fields = [[self.keys[0], ["s", ["int"]], False]]
            if rng.random() < k.get("p_pk_pair", 0.0):
                fields = [f for f in fields if f[0] not in ("id", "pk")]
                for key in rng.sample(["id", "pk"], 2):
                    fields.insert(rng.randint(0, len(fields)), [key, ["s", ["int"]], False])
            have = {f[0] for f in fields}
            for f in list(fields):
                # model names come from the keys that hold objects: give those keys the interesting spellings more often
                if f[1][0] in ("obj", "list_obj", "list_obj_mixed") and rng.random() < k.get("p_special_model_key", 0.0):
                    cand = rng.choice(KEY_POOLS["keyword"] + KEY_POOLS["odd"] + KEY_POOLS["unicode"])
                    if cand not in have:
                        have.discard(f[0])
                        f[0] = cand
                        have.add(cand)
                # keys that collide after renaming (userId / user_id / user-id ...) with the same kind of value
                if rng.random() < k.get("p_collide", 0.0):
                    twin = collision_twin(f[0])
                    if twin and twin not in have:
                        if rng.random() < 0.5:
                            # both spellings carry string pseudo-type values (converters, aliases, metadata paths)
                            f[1] = ["s", [rng.choice(["str_int", "str_float", "str_bool", "str_date"])]]
                        fields.append([twin, copy.deepcopy(f[1]), f[2]])
                        have.add(twin)
            self.shapes.append(fields)

    # ---- instances ------------------------------------------------------------------------------------------
    def container(self, kind):
        rng = self.rng
        if kind == "list_empty":
            return []
        if kind == "list_int":
            return [scalar(rng, "int") for _ in range(rng.randint(1, 3))]
        if kind == "list_str" and rng.random() < self.k.get("p_long_list", 0.0) and not self.k.get("bulk"):
            # boundary size: hundreds of numeric strings, nearly all of one kind
            major, minor = rng.choice([("str_float", "str_int"), ("str_int", "str_float"), ("str_float", "str_plain")])
            return [scalar(rng, major if rng.random() < 0.98 else minor) for _ in range(rng.choice([300, 520, 700]))]
        if kind == "list_str":
            return [scalar(rng, rng.choice(["str_plain", "str_int", "str_long"])) for _ in range(rng.randint(1, 3))]
        if kind == "list_mixed":
            return [scalar(rng, rng.choice(self.k["scalar_kinds"])) for _ in range(rng.randint(1, 4))]
        if kind == "list_nested":
            return [[scalar(rng, "int")], []] if rng.random() < 0.5 else [[None], [scalar(rng, "str_plain")]]
        if kind == "dict_empty":
            return {}
        if kind == "dict_like" and rng.random() < self.k.get("p_big_dict", 0.0) and not self.k.get("bulk"):
            n = rng.choice([199, 200, 201, 230, 260, 300])
            return {str(i): scalar(rng, "int" if rng.random() < 0.97 else rng.choice(["str_plain", "null", "float"]))
                    for i in range(n)}
        if kind == "dict_like":
            return {str(rng.randrange(100)): scalar(rng, rng.choice(["int", "str_plain", "null"]))
                    for _ in range(rng.randint(1, 3))}
        if kind == "dict_mixed_keys":
            # keys from several families: each family matches one of the regex options, only their union covers all
            fam = [lambda: str(rng.randrange(100)), lambda: rng.choice("abcdefgh") + str(rng.randrange(10)),
                   lambda: rng.choice(["en", "de", "fr", "x"])]
            n = rng.randint(2, 4)
            return {rng.choice(fam[:rng.randint(1, 3)])(): scalar(rng, rng.choice(["int", "str_plain"])) for _ in range(n)}
        raise ValueError(kind)

    def instance(self, sid, depth):
        rng, k = self.rng, self.k
        out = {}
        for key, spec, may_miss in self.shapes[sid]:
            if may_miss and rng.random() < 0.4:
                continue
            if rng.random() < k["p_null"]:
                out[key] = None
                continue
            t = spec[0]
            if t == "s":
                out[key] = scalar(rng, rng.choice(spec[1]))
            elif t == "c":
                out[key] = self.container(spec[1])
            elif t in ("obj", "list_obj", "list_obj_mixed"):
                if depth <= 0:
                    if rng.random() < 0.5:
                        continue
                    out[key] = None if t == "obj" else []
                elif t == "obj":
                    out[key] = self.instance(spec[1], depth - 1)
                elif t == "list_obj":
                    out[key] = [self.instance(spec[1], depth - 1) for _ in range(rng.randint(0, 2))]
                else:
                    # objects next to non-objects in one list (heterogeneous union with a nested model)
                    items = [self.instance(spec[1], depth - 1) for _ in range(rng.randint(1, 2))]
                    items.insert(rng.randint(0, len(items)), rng.choice([None, 5, "red", [1]]))
                    out[key] = items
        if not out:
            key, spec, _ = self.shapes[sid][0]
            out[key] = scalar(rng, "int")
        if k.get("p_shuffle_keys") and rng.random() < k["p_shuffle_keys"]:
            items = list(out.items())
            rng.shuffle(items)
            out = dict(items)
        return out

    def models(self):
        rng, k = self.rng, self.k
        names = ["Root", "Item", "other_thing", "Таблица", "model2", "Bird", "Cat", "Horse"]
        out = []
        n_models = k["n_models"]
        same_shape = n_models >= 3 and rng.random() < 0.5  # several user-named roots that merge into one model
        for i in range(n_models):
            sid = rng.randrange(len(self.shapes)) if (i and not same_shape) else len(self.shapes) - 1
            n = rng.randint(1, k["samples"])
            samples = [self.instance(sid, k["depth"]) for _ in range(n)]
            if rng.random() < k["p_dup_sample"] and samples:
                samples.insert(rng.randrange(len(samples) + 1), rng.choice(samples))
            if rng.random() < k.get("p_numeric_twin", 0.0) and samples:
                # a twin that is ==-equal to an existing sample but differs in the JSON type of its numbers
                # (1 / 1.0 / true), placed right next to it
                j = rng.randrange(len(samples))
                samples.insert(j + rng.randint(0, 1), numeric_twin(samples[j], rng))
            if k.get("bulk") and i == 0 and samples:
                # many samples (beyond any batch size / cache size an implementation might use)
                base = list(samples)
                while len(samples) < k["bulk"]:
                    samples.append(base[rng.randrange(len(base))] if rng.random() < 0.7 else self.instance(sid, 0))
            out.append([names[i % len(names)], samples])
        return out

    def options(self):
        rng, k = self.rng, self.k
        o = {
            "framework": rng.choice(k["frameworks"]),
            "structure": rng.choice(k["structures"]),
            # None = no comparators passed at all (ModelRegistry() with its shared class-level defaults / no --merge)
            "merge": rng.choice([["percent", "number"], ["exact"], ["percent_50", "number_2"], ["percent_100"],
                                 ["number_1"], ["percent_70"], ["number_3", "exact"], ["percent_30"], None, None,
                                 # one kind of comparator given twice: a pair merges when ANY comparator accepts it
                                 ["percent_50", "percent_90"], ["number_2", "percent_95", "number_9"], ["percent_90", "percent_40"]]),
            "dict_keys_regex": rng.choice([[], [], [r"\d+"], [r"[a-z]\d*", r"\d+"], [r"\d+", r"[a-z]{1,2}"],
                                           [r"[a-h]\d", r"\d+", r"[a-z]+"], [r"\d"]]),
            "dict_keys_fields": rng.choice([[], [], [rng.choice(self.keys)]]),
            "max_literals": rng.choice([0, 1, 2, 3, 10, 10, 15, 20]),
            # converters only matter when string pseudo-type values exist: spend the option where it has an effect
            "post_init_converters": rng.random() < (0.5 if any(x.startswith("str_") and x not in ("str_plain", "str_long")
                                                                for x in k["scalar_kinds"]) else 0.15),
            "convert_unicode": rng.random() < 0.7,
            "meta": rng.random() < 0.3,
            "preamble": rng.choice([None, None, "# preamble\nX = 1"]),
        }
        st = [t for t in STR_TYPES[:3] if rng.random() < 0.8]
        if rng.random() < k["p_datetime"]:
            st += ["date", "time", "datetime"]
        if rng.random() < 0.3:
            rng.shuffle(st)
        o["str_types"] = st
        return o

    def workload(self):
        return {"models": self.models(), "options": self.options()}


def draw_knobs(rng: random.Random, **fixed):
    """Swarm: draw which value kinds, key styles and options are enabled and the size knobs for this run."""
    styles = [s for s in KEY_POOLS if rng.random() < (0.9 if s == "snake" else 0.3)] or ["snake"]
    scal = [s for s in SCALAR_KINDS if rng.random() < 0.5] or ["int", "str_plain"]
    cont = [c for c in CONTAINER_KINDS if rng.random() < 0.4]
    k = {
        "key_styles": styles,
        "scalar_kinds": scal,
        "container_kinds": cont,
        "vocab": rng.randint(4, 14),
        "n_shapes": rng.randint(1, 5),
        "width": rng.randint(1, 7),
        "depth": rng.randint(1, 4),
        "samples": rng.choice([rng.randint(1, 6)] * 9 + [rng.randint(12, 40)]),
        "n_models": rng.choice([1, 1, 1, 1, 2, 2, 3, 3, 5, 7]),
        "p_nested": rng.choice([0.0, 0.15, 0.3, 0.5]),
        "p_list_obj": rng.choice([0.0, 0.1, 0.25]),
        "p_self": rng.choice([0.0, 0.0, 0.08, 0.2]),
        "p_container": rng.choice([0.0, 0.2, 0.4]),
        "p_hetero": rng.choice([0.0, 0.2, 0.5]),
        "p_variant": rng.choice([0.0, 0.3, 0.7]),
        "p_missing": rng.choice([0.0, 0.2, 0.5]),
        "p_null": rng.choice([0.0, 0.05, 0.2]),
        "p_dup_sample": rng.choice([0.0, 0.3]),
        "p_datetime": rng.choice([0.0, 0.0, 0.5]),
        "frameworks": [f for f in ALL_FRAMEWORKS if rng.random() < 0.6] or ["base"],
        "structures": rng.choice([["flat"], ["nested"], ["flat", "nested"]]),
        "chain": rng.random() < 0.08,
        "p_special_model_key": rng.choice([0.0, 0.3, 0.6]),
        "p_collide": rng.choice([0.0, 0.0, 0.15, 0.4]),
        "p_numeric_twin": rng.choice([0.0, 0.0, 0.5]),
        "bulk": rng.choice([0] * 240 + [1001, 1200, 2100]),
        "p_shuffle_keys": rng.choice([0.0, 0.0, 0.3, 1.0]),
        # both conventional key names of a table (id AND pk) as required integers in one object
        "p_pk_pair": rng.choice([0.0, 0.0, 0.0, 0.35]),
        # boundary size: a mapping-like object with hundreds of entries (a few of them of another kind)
        "p_big_dict": rng.choice([0.0] * 7 + [0.2]),
        "p_long_list": rng.choice([0.0] * 7 + [0.3]),
    }
    if k["chain"]:
        k.update(n_models=1, depth=2, samples=max(3, k["samples"]), p_null=0.0, bulk=0)
    if k["bulk"]:
        k.update(depth=min(k["depth"], 1), width=min(k["width"], 3), n_models=1)
    k.update(fixed)
    return k


def count_model_paths(models) -> int:
    """Number of distinct object paths (= models registered before merging); bounds the registry's quadratic
    group closure, which is the dominating cost of a run."""
    paths = set()

    def walk(v, path):
        if isinstance(v, dict):
            paths.add(path)
            for k, x in v.items():
                walk(x, path + (k,))
        elif isinstance(v, list):
            for x in v:
                walk(x, path + ("[]",))

    for name, samples in models:
        for smp in samples:
            walk(smp, (name,))
    return len(paths)


def largest_cluster(models) -> int:
    """Size of the largest set of object paths connected by 'share at least one key' - an upper bound for the largest
    merge group under any comparator.  The registry's group closure explodes combinatorially for clusters >= 25
    (measured: 10+ s), which is a cost of the code under test, not something these checks are about."""
    keysets = {}

    def walk(v, path):
        if isinstance(v, dict):
            keysets.setdefault(path, set()).update(v.keys())
            for k, x in v.items():
                walk(x, path + (k,))
        elif isinstance(v, list):
            for x in v:
                walk(x, path + ("[]",))

    for name, samples in models:
        for smp in samples:
            walk(smp, (name,))
    ks = list(keysets.values())
    parent = list(range(len(ks)))

    def find(a):
        while parent[a] != a:
            parent[a] = parent[parent[a]]
            a = parent[a]
        return a

    for i in range(len(ks)):
        for j in range(i + 1, len(ks)):
            if ks[i] & ks[j]:
                parent[find(i)] = find(j)
    sizes = {}
    for i in range(len(ks)):
        r = find(i)
        sizes[r] = sizes.get(r, 0) + 1
    return max(sizes.values()) if sizes else 0


MAX_MODEL_PATHS = 28
MAX_CLUSTER = 18


def gen_workload(rng: random.Random, **fixed):
    knobs = draw_knobs(rng, **fixed)
    g = Gen(rng, knobs)
    w = g.workload()
    while (count_model_paths(w["models"]) > MAX_MODEL_PATHS or largest_cluster(w["models"]) > MAX_CLUSTER) \
            and (g.k["depth"] > 0 or g.k["n_models"] > 1):
        if g.k["depth"] > 0:
            g.k["depth"] -= 1
        else:
            g.k["n_models"] = max(1, g.k["n_models"] - 2)
        w = g.workload()
    w["paths"] = count_model_paths(w["models"])
    w["knobs"] = {kk: g.k[kk] for kk in ("n_shapes", "width", "depth", "samples", "n_models")}
    return w
