"""Order scheduler seam: insertion-ordered set / frozenset whose iteration order is a scheduling decision.

`SimSet` / `SimFrozenSet` are real `set` / `frozenset` subclasses: membership, equality, hashing and length are
the builtin ones.  They additionally remember insertion order, and every *iteration* (and `pop`) asks the global
scheduler `SCHED` in which order the elements are delivered.  Under `identity` mode this is insertion order,
which makes the system a deterministic function of its inputs regardless of PYTHONHASHSEED and addresses.
Under `random` mode the permutation at a decision point is derived from (schedule seed, site, occurrence, n) --
independent streams per site, so that disabling one site does not disturb the choices made at the others.
"""
import linecache
import os
import random
import sys

from .seeds import derive_int

_THIS_FILE = os.path.abspath(__file__).rstrip("c")


class Scheduler:
    def __init__(self):
        self.pkg_dir = None  # set by the loader: directory of the json_to_models package under test
        self.reset()

    def reset(self, mode="identity", seed=0, enabled=None, pinned=()):
        self.mode = mode
        self.seed = seed
        # enabled: None -> every decision point may be permuted; else a set of "site@occ" strings
        self.enabled = None if enabled is None else set(enabled)
        self.pinned = set(pinned)
        self.counts = {}  # site -> number of decision points seen at that site
        self.trace = []  # non-identity decisions actually applied: [site, occ, n, perm]
        self.points = 0  # decision points (volatile sets with >= 2 elements that were iterated)
        self.foreign = 0  # builtin sets that reached instrumented code and were ordered canonically
        self.unorderable = []  # builtin sets with no canonical order (harness error)
        return self

    # -- site attribution ------------------------------------------------------------------------------------
    def find_site(self):
        f = sys._getframe(2)
        pkg = self.pkg_dir
        first_external = None
        while f is not None:
            fn = f.f_code.co_filename
            if fn != _THIS_FILE:
                if pkg and fn.startswith(pkg):
                    rel = fn[len(pkg):].lstrip(os.sep)
                    text = " ".join(linecache.getline(fn, f.f_lineno).split())
                    return f"{rel}:{f.f_code.co_name}:{text}"
                if first_external is None:
                    first_external = f"<ext>{os.path.basename(fn)}:{f.f_code.co_name}"
            f = f.f_back
        return first_external or "<unknown>"

    def order(self, elems):
        n = len(elems)
        if n < 2 or not _volatile(elems):
            return elems
        self.points += 1
        site = self.find_site()
        occ = self.counts.get(site, 0)
        self.counts[site] = occ + 1
        if self.mode != "random":
            return elems
        if site in self.pinned:
            return elems
        if self.enabled is not None and f"{site}@{occ}" not in self.enabled:
            return elems
        rng = random.Random(derive_int("perm", self.seed, site, occ, n))
        perm = list(range(n))
        rng.shuffle(perm)
        if perm == sorted(perm):
            return elems
        self.trace.append([site, occ, n, perm])
        return [elems[i] for i in perm]


SCHED = Scheduler()

_STABLE_SCALARS = (int, float, bool, complex, type(None))


def _volatile_elem(e):
    if isinstance(e, _STABLE_SCALARS):
        return False
    if isinstance(e, (tuple, frozenset)):
        return any(_volatile_elem(x) for x in e)
    return True  # str/bytes (hash seed), identity-hashed objects, classes, objects hashing a str


def _volatile(elems):
    return any(_volatile_elem(e) for e in elems)


def _canon_key(e):
    r = repr(e)
    if " at 0x" in r:
        raise TypeError("no canonical order")
    return (type(e).__name__, r)


def _ordered_elems(it):
    """Elements of `it` in the order they are taken into a new SimSet (no scheduling decision)."""
    if isinstance(it, _Mixin):
        return list(it._ord)
    if isinstance(it, (set, frozenset)):
        # a builtin set created outside instrumented code: order canonically (never by hash order)
        SCHED.foreign += 1
        try:
            return sorted(it, key=_canon_key)
        except TypeError:
            SCHED.unorderable.append(SCHED.find_site())
            return sorted(it, key=lambda e: (type(e).__name__, str(hash(e))))
    return it


class _Mixin:
    """Shared behaviour.  `_o` is the insertion-order dict (or None while lazy); `_lz` is the lazy recipe: a list of
    ordered element sources whose concatenation, filtered by membership in self, is the insertion order.  Results
    of binary operations are computed by the builtin C implementation (stored hashes, no Python-level __hash__
    calls) and ordered lazily, only if they are ever iterated."""
    __slots__ = ()

    @property
    def _ord(self):
        o = self._o
        if o is None:
            o = {}
            base = set if isinstance(self, set) else frozenset
            has = base.__contains__
            for src in self._lz:
                if isinstance(src, _Mixin):
                    src = src._ord
                for e in src:
                    if e not in o and has(self, e):
                        o[e] = None
            self._o = o
            self._lz = None
        return o

    def __iter__(self):
        elems = list(self._ord)
        if len(elems) >= 2 and not _volatile(elems):
            # ints/floats/None: CPython's order is the same in every process -> keep the real table order
            return (set if isinstance(self, set) else frozenset).__iter__(self)
        return iter(SCHED.order(elems))

    def __repr__(self):
        if not len(self):
            return "set()" if isinstance(self, set) else "frozenset()"
        body = "{" + ", ".join(repr(e) for e in self) + "}"
        return body if isinstance(self, set) else f"frozenset({body})"

    def _src(self):
        """An immutable ordered source standing for this set's current insertion order."""
        if isinstance(self, frozenset):
            return self
        return dict(self._ord)  # C-level copy, keeps stored hashes

    def _lazy(self, result, *sources):
        cls = SimSet if isinstance(self, set) else SimFrozenSet
        return cls._from_lazy(result, sources)

    def copy(self):
        cls = SimSet if isinstance(self, set) else SimFrozenSet
        return cls._from_lazy(self, (self._src(),))

    __copy__ = copy

    def __deepcopy__(self, memo):
        import copy as _copy
        cls = SimSet if isinstance(self, set) else SimFrozenSet
        return cls([_copy.deepcopy(e, memo) for e in self._ord])

    def __reduce__(self):
        return (type(self), (list(self._ord),))

    @staticmethod
    def _arg(o):
        """(builtin-set view usable by C-level set ops, ordered source) for an operand."""
        if isinstance(o, _Mixin):
            return o, o._src()
        if isinstance(o, (set, frozenset)):
            lst = _ordered_elems(o)
            return o, lst
        lst = list(o)
        return lst, lst

    def _base(self):
        return set if isinstance(self, set) else frozenset

    # methods returning new sets
    def union(self, *others):
        args = [self._arg(o) for o in others]
        res = self._base().union(self, *[a[0] for a in args])
        return self._lazy(res, self._src(), *[a[1] for a in args])

    def intersection(self, *others):
        args = [self._arg(o) for o in others]
        res = self._base().intersection(self, *[a[0] for a in args])
        return self._lazy(res, self._src())

    def difference(self, *others):
        args = [self._arg(o) for o in others]
        res = self._base().difference(self, *[a[0] for a in args])
        return self._lazy(res, self._src())

    def symmetric_difference(self, other):
        a = self._arg(other)
        res = self._base().symmetric_difference(self, a[0])
        return self._lazy(res, self._src(), a[1])

    def _binop(self, other, name):
        if not isinstance(other, (set, frozenset)):
            return NotImplemented
        return getattr(self, name)(other)

    def __or__(self, other):
        return self._binop(other, "union")

    def __and__(self, other):
        return self._binop(other, "intersection")

    def __sub__(self, other):
        return self._binop(other, "difference")

    def __xor__(self, other):
        return self._binop(other, "symmetric_difference")

    def _rbinop(self, other, name):
        # builtin set on the left: the result takes the left operand's kind and (canonical) order first
        if not isinstance(other, (set, frozenset)):
            return NotImplemented
        left = (SimSet if isinstance(other, set) else SimFrozenSet)(other)
        return getattr(left, name)(self)

    def __ror__(self, other):
        return self._rbinop(other, "union")

    def __rand__(self, other):
        return self._rbinop(other, "intersection")

    def __rsub__(self, other):
        return self._rbinop(other, "difference")

    def __rxor__(self, other):
        return self._rbinop(other, "symmetric_difference")


class SimSet(_Mixin, set):
    __slots__ = ("_o", "_lz")

    def __init__(self, iterable=()):
        set.__init__(self)
        self._lz = None
        if isinstance(iterable, _Mixin):
            set.update(self, iterable)
            self._o = None
            self._lz = (iterable._src(),)
            return
        self._o = o = {}
        for e in _ordered_elems(iterable):
            o[e] = None
        set.update(self, o)

    @classmethod
    def _from_lazy(cls, result, sources):
        self = cls.__new__(cls)
        set.__init__(self, result)
        self._o = None
        self._lz = sources
        return self

    __hash__ = None

    def add(self, e):
        self._ord.setdefault(e, None)
        set.add(self, e)

    def discard(self, e):
        self._ord.pop(e, None)
        set.discard(self, e)

    def remove(self, e):
        o = self._ord
        set.remove(self, e)
        o.pop(e, None)

    def pop(self):
        o = self._ord
        if not o:
            raise KeyError("pop from an empty set")
        e = SCHED.order(list(o))[0]
        set.discard(self, e)
        del o[e]
        return e

    def clear(self):
        set.clear(self)
        self._o = {}
        self._lz = None

    def update(self, *others):
        o = self._ord
        for other in others:
            if isinstance(other, _Mixin):
                other = other._ord
            elif isinstance(other, (set, frozenset)):
                other = _ordered_elems(other)
            for e in other:
                set.add(self, e)
                o.setdefault(e, None)

    def _resync(self):
        self._o = {e: None for e in self._ord if set.__contains__(self, e)}

    def intersection_update(self, *others):
        self._ord
        set.intersection_update(self, *[self._arg(o)[0] for o in others])
        self._resync()

    def difference_update(self, *others):
        self._ord
        set.difference_update(self, *[self._arg(o)[0] for o in others])
        self._resync()

    def symmetric_difference_update(self, other):
        new = self.symmetric_difference(other)
        o = new._ord
        set.clear(self)
        set.update(self, o)
        self._o = o
        self._lz = None

    def __ior__(self, other):
        if not isinstance(other, (set, frozenset)):
            return NotImplemented
        self.update(other)
        return self

    def __iand__(self, other):
        if not isinstance(other, (set, frozenset)):
            return NotImplemented
        self.intersection_update(other)
        return self

    def __isub__(self, other):
        if not isinstance(other, (set, frozenset)):
            return NotImplemented
        self.difference_update(other)
        return self

    def __ixor__(self, other):
        if not isinstance(other, (set, frozenset)):
            return NotImplemented
        self.symmetric_difference_update(other)
        return self


class SimFrozenSet(_Mixin, frozenset):
    def __new__(cls, iterable=()):
        if isinstance(iterable, _Mixin):
            self = frozenset.__new__(cls, iterable)  # C-level copy (stored hashes)
            self._o = None
            self._lz = (iterable._src(),)
            return self
        o = {}
        for e in _ordered_elems(iterable):
            o[e] = None
        self = frozenset.__new__(cls, o)
        self._o = o
        self._lz = None
        return self

    @classmethod
    def _from_lazy(cls, result, sources):
        self = frozenset.__new__(cls, result)
        self._o = None
        self._lz = sources
        return self

    def __hash__(self):
        return frozenset.__hash__(self)


def install():
    import builtins
    builtins.__vset__ = SimSet
    builtins.__vfset__ = SimFrozenSet
