"""Parent side: worker processes and deterministic job distribution (results are keyed by job index only)."""
import json
import os
import queue
import select
import subprocess
import sys
import threading
import time

HERE = os.path.dirname(os.path.abspath(__file__))
PYTHON = os.environ.get("VERIF_PYTHON", "/venv/bin/python")
if not os.path.exists(PYTHON):
    PYTHON = sys.executable


class HarnessError(Exception):
    pass


def jobs_default() -> int:
    try:
        return max(1, int(os.environ.get("VERIF_JOBS", "") or (os.cpu_count() or 4)))
    except ValueError:
        return os.cpu_count() or 4


class Worker:
    def __init__(self, instrument: bool, hashseed: int = 0, extra_env=None):
        self.instrument = instrument
        self.hashseed = hashseed
        self.extra_env = dict(extra_env or {})
        self.proc = None
        self.hello = None
        self.start()

    def start(self):
        env = dict(os.environ)
        env.update(self.extra_env)
        env["PYTHONHASHSEED"] = str(self.hashseed)
        env["J2M_VERIF"] = "1"
        env["J2M_VERIF_INSTRUMENT"] = "1" if self.instrument else "0"
        env["PYTHONDONTWRITEBYTECODE"] = "1"
        env.pop("TRAVIS", None)
        env.pop("FORCE_COVERAGE", None)
        self.proc = subprocess.Popen([PYTHON, "-X", "faulthandler", os.path.join(HERE, "worker.py")],
                                     stdin=subprocess.PIPE, stdout=subprocess.PIPE, env=env, cwd="/")
        self._buf = b""
        line = self._readline(60)
        if line is None:
            raise HarnessError("worker did not start")
        self.hello = json.loads(line)
        if not self.hello.get("hello"):
            raise HarnessError(self.hello.get("harness_error", "worker start failed"))

    _buf = b""

    def _readline(self, timeout):
        fd = self.proc.stdout.fileno()
        deadline = time.monotonic() + timeout
        while b"\n" not in self._buf:
            left = deadline - time.monotonic()
            if left <= 0:
                return None
            rl, _, _ = select.select([fd], [], [], left)
            if not rl:
                return None
            b = os.read(fd, 1 << 16)
            if not b:
                return None
            self._buf += b
        line, self._buf = self._buf.split(b"\n", 1)
        return line

    def call(self, fn, args, timeout=60.0):
        req = json.dumps({"fn": fn, "args": args, "timeout": timeout}, ensure_ascii=True) + "\n"
        try:
            self.proc.stdin.write(req.encode())
            self.proc.stdin.flush()
        except (BrokenPipeError, OSError) as e:
            self.restart()
            return {"harness_error": f"worker pipe broken: {e}"}
        line = self._readline(timeout + 15)
        if line is None:
            self.restart()
            return {"harness_error": f"worker unresponsive ({fn})"}
        return json.loads(line)

    def restart(self):
        self.close(kill=True)
        self.start()

    def close(self, kill=False):
        p = self.proc
        if p is None:
            return
        try:
            if kill:
                p.kill()
            else:
                try:
                    p.stdin.write(b'{"op": "quit"}\n')
                    p.stdin.flush()
                    p.stdin.close()
                except (BrokenPipeError, OSError):
                    pass
            try:
                p.wait(5)
            except subprocess.TimeoutExpired:
                p.kill()
                p.wait()
            p.stdout.close()
        finally:
            self.proc = None


def _start_many(specs):
    """Start workers concurrently. specs: list of (instrument, hashseed, extra_env)."""
    out = [None] * len(specs)
    errs = []

    def go(i):
        try:
            out[i] = Worker(*specs[i])
        except BaseException as e:  # noqa
            errs.append(e)

    ts = [threading.Thread(target=go, args=(i,)) for i in range(len(specs))]
    for t in ts:
        t.start()
    for t in ts:
        t.join()
    if errs:
        for w in out:
            if w:
                w.close(kill=True)
        raise HarnessError(f"worker start failed: {errs[0]}")
    return out


class Pool:
    """Homogeneous pool; `map` returns results in job order, independent of the number of workers."""

    def __init__(self, n=None, instrument=True, hashseed=0, extra_env=None):
        n = n or jobs_default()
        self.workers = _start_many([(instrument, hashseed, extra_env)] * n)

    def map(self, fn, args_list, timeout=60.0, progress=None):
        results = [None] * len(args_list)
        q = queue.Queue()
        for i, a in enumerate(args_list):
            q.put((i, a))
        done = [0]
        lock = threading.Lock()

        def run(w):
            while True:
                try:
                    i, a = q.get_nowait()
                except queue.Empty:
                    return
                results[i] = w.call(fn, a, timeout)
                if progress:
                    with lock:
                        done[0] += 1
                        progress(done[0], len(args_list))

        ts = [threading.Thread(target=run, args=(w,)) for w in self.workers]
        for t in ts:
            t.start()
        for t in ts:
            t.join()
        return results

    def close(self):
        for w in self.workers:
            w.close()

    def __enter__(self):
        return self

    def __exit__(self, *a):
        self.close()


class HeteroPool:
    """One real (un-instrumented) interpreter per hash seed; every job is run on every worker."""

    def __init__(self, hashseeds, instrument=False, extra_env=None):
        self.hashseeds = list(hashseeds)
        # a real interpreter whose hash seed is 3 modulo 4 also runs with asserts stripped (python -O): the interpreter's
        # optimisation level is environment, not input
        self.workers = _start_many([(instrument, h, dict(extra_env or {}, **({"PYTHONOPTIMIZE": "1"} if h % 4 == 3 else {})))
                                    for h in self.hashseeds])

    def map_all(self, fn, args_for, n_jobs, timeout=60.0):
        """args_for(worker_index, job_index) -> args.  Returns results[worker_index][job_index]."""
        results = [[None] * n_jobs for _ in self.workers]

        def run(wi, w):
            for j in range(n_jobs):
                results[wi][j] = w.call(fn, args_for(wi, j), timeout)

        ts = [threading.Thread(target=run, args=(wi, w)) for wi, w in enumerate(self.workers)]
        for t in ts:
            t.start()
        for t in ts:
            t.join()
        return results

    def close(self):
        for w in self.workers:
            w.close()

    def __enter__(self):
        return self

    def __exit__(self, *a):
        self.close()


class Skips:
    """Jobs of the system under test that ran into the per-job time limit are skipped (not judged) up to a small
    budget; beyond it the run is a harness error.  A slow path in the code under test must not hide every other case."""

    def __init__(self, limit):
        self.limit = limit
        self.timeouts = 0

    def take(self, res):
        """-> result, or None if the job timed out (counted)."""
        if res is not None and "harness_error" in res and ("timeout" in res["harness_error"]
                                                              or "job child died" in res["harness_error"]):
            # (a child killed by a signal - out of memory, stack overflow - is the code under test crashing the
            # interpreter on this input; like a timeout it is skipped within the budget)
            self.timeouts += 1
            if self.timeouts > self.limit:
                raise HarnessError(f"{self.timeouts} jobs exceeded their time limit: {res['harness_error']}")
            return None
        return unwrap(res)


def unwrap(res):
    """Result of a job or raise HarnessError."""
    if res is None or "harness_error" in res:
        raise HarnessError((res or {}).get("harness_error", "no result"))
    return res["ok"]
