"""Entry point: /verif/check <id> [--tier quick|thorough] [--replay file] [--scale f]"""
import argparse
import importlib
import json
import os
import sys
import traceback

HERE = os.path.dirname(os.path.abspath(__file__))
sys.path.insert(0, os.path.dirname(HERE))


class Ctx:
    def __init__(self, tier, seed, jobs, scale):
        self.tier, self.seed, self.jobs, self.scale = tier, seed, jobs, scale

    def reporter(self, prop, level):
        from sim.report import Reporter
        return Reporter(prop, self.tier, self.seed, level)


def _sweep_stale_scratch(max_age_s=3 * 3600):
    """Remove scratch directories left behind by killed children of earlier runs (older than 3 hours)."""
    import shutil
    import tempfile
    import time
    for root in {"/dev/shm", tempfile.gettempdir()}:
        try:
            names = os.listdir(root)
        except OSError:
            continue
        for n in names:
            if n.startswith(("j2m-sim-", "j2m-c06-", "j2m-c16-", "j2m-c17", "j2m-mutant-", "j2m-seeded-")):
                p = os.path.join(root, n)
                try:
                    if time.time() - os.stat(p).st_mtime > max_age_s:
                        shutil.rmtree(p, ignore_errors=True)
                except OSError:
                    pass


def main(argv=None):
    if os.environ.get("PYTHONHASHSEED") != "0":
        # harness-side dict/set order must not depend on the hash seed: re-exec under a fixed one
        env = dict(os.environ, PYTHONHASHSEED="0")
        os.execve(sys.executable, [sys.executable, os.path.abspath(__file__)] + list(sys.argv[1:]), env)
    ap = argparse.ArgumentParser()
    ap.add_argument("prop")
    ap.add_argument("--tier", default=os.environ.get("VERIF_TIER") or "quick", choices=["quick", "thorough"])
    ap.add_argument("--replay")
    ap.add_argument("--scale", type=float, default=float(os.environ.get("VERIF_SCALE", "1")))
    a = ap.parse_args(argv)
    _sweep_stale_scratch()
    sys.setrecursionlimit(20000)  # harness side only (deep-document workloads are copied / shrunk recursively)
    from sim import pool, seeds
    ctx = Ctx(a.tier, seeds.root_seed(), pool.jobs_default(), a.scale)
    prop = a.prop.upper()
    try:
        if prop == "SELFTEST":
            from sim import selftest
            return selftest.run(ctx)
        mod = importlib.import_module("sim.checks." + prop.lower())
        if a.replay:
            with open(a.replay, encoding="utf-8") as f:
                payload = json.load(f)
            ok, text = mod.replay(ctx, payload)
            if ok:
                print(f"VIOLATION property={prop} replay={os.path.abspath(a.replay)}")
                print(f"  what: {text}")
                return 1
            print(f"replay: not reproduced ({text})")
            return 0
        return mod.run(ctx)
    except pool.HarnessError as e:
        print(f"HARNESS-ERROR property={prop} {e}")
        return 2
    except Exception:  # noqa
        print(f"HARNESS-ERROR property={prop} unexpected exception in the harness")
        traceback.print_exc()
        return 2


if __name__ == "__main__":
    sys.exit(main())
