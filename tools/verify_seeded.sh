#!/bin/bash
# tools/verify_seeded.sh <dir with patch.diff + demo.py|demo.sh> <check id>... : confirm a seeded change
# (demo passes on the unchanged tree, fails on the changed one; test suite still passes) and run checks on it.
set -u
D="$(readlink -f "$1")"; shift
DIR="$(cd "$(dirname "${BASH_SOURCE[0]}")/.." && pwd)"
PY=/venv/bin/python
S="$(mktemp -d /dev/shm/j2m-seeded-XXXXXX)"
trap 'rm -rf "$S"' EXIT
mkdir -p "$S/a" "$S/b" "$S/ev" "$S/rp"
rsync -a --exclude .git --exclude __pycache__ /repo/ "$S/a/"
rsync -a --exclude .git --exclude __pycache__ /repo/ "$S/b/"
(cd "$S/b" && (git apply -p1 "$D/patch.diff" 2>/dev/null || patch -p1 -s -F3 < "$D/patch.diff")) || { echo "PATCH-FAILED"; exit 3; }
demo() { if [ -f "$D/demo.py" ]; then (cd "$S" && PYTHONPATH="$1" timeout 600 $PY "$D/demo.py" >"$S/demo.out" 2>&1); else (cd "$S" && PYTHONPATH="$1" timeout 600 bash "$D/demo.sh" "$1" >"$S/demo.out" 2>&1); fi; echo $?; }
ra=$(demo "$S/a"); rb=$(demo "$S/b")
echo "demo: unchanged exit=$ra changed exit=$rb"
if [ -z "${SKIP_TESTS:-}" ]; then
  t=$(cd "$S/b" && PYTHONPATH="$S/b" timeout 1800 $PY -m pytest -q -p no:cacheprovider 2>&1 | tail -1)
  echo "tests on changed tree: $t"
fi
for id in "$@"; do
  VERIF_REPO="$S/b" VERIF_EVIDENCE_DIR="$S/ev" VERIF_REPLAY_DIR="$S/rp" "$DIR/check" "$id" ${MUTANT_ARGS:-} 2>&1 | grep -E "VIOLATION|what:|KNOWN-FINDING|HARNESS|quick:|thorough:" | cut -c1-330 | head -8
  echo "check $id exit ${PIPESTATUS[0]}"
done
