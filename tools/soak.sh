#!/bin/bash
# tools/soak.sh <tier> <first seed> <last seed> [checks...] : run checks with many seeds, evidence/replays kept apart
# (background soak; prints one line per run and every VIOLATION / HARNESS-ERROR line)
TIER=$1; A=$2; B=$3; shift 3
CHECKS=${@:-C06 C07 C14 C15 C16 C17}
DIR="$(cd "$(dirname "${BASH_SOURCE[0]}")/.." && pwd)"
OUT=${SOAK_OUT:-/tmp/j2m-soak}
mkdir -p $OUT/ev $OUT/rp
for s in $(seq $A $B); do
  for c in $CHECKS; do
    VERIF_SEED=$s VERIF_EVIDENCE_DIR=$OUT/ev VERIF_REPLAY_DIR=$OUT/rp "$DIR/check" $c --tier $TIER 2>&1 | grep -E "^VIOLATION|what:|HARNESS|quick:|thorough:" | cut -c1-400
  done
done
