#!/venv/bin/python
"""Build the sensitivity catalogue (DESIGN.md section 7): small seeded defects as patch files under
/verif/seeded/catalogue/.  Each entry: (name, property, expected 'catch'|'silent'|'blind', file, old text, new text).
Run once; the diffs are committed.  Patches are relative to the repository root (apply with patch -p1)."""
import difflib
import os
import subprocess
import sys

REPO = "/repo"
OUT = os.path.join(os.path.dirname(os.path.dirname(os.path.abspath(__file__))), "seeded", "catalogue")

M = []


def m(name, prop, expect, path, old, new, note=""):
    M.append((name, prop, expect, [(path, old, new)], note))


def m2(name, prop, expect, edits, note=""):
    M.append((name, prop, expect, edits, note))


# ---- C06 ------------------------------------------------------------------------------------------------------------
m("c06_undo_merge_order", "C06", "catch", "json_to_models/registry.py",
  "            ordered_group = [model for model in tuple(self.models) if model in group]\n            model_meta = self._merge(generator, *ordered_group)\n",
  "            model_meta = self._merge(generator, *group)\n", "revert of fix 0c5c22c")
m("c06_undo_pointers_orderedset", "C06", "catch", "json_to_models/dynamic_typing/models_meta.py",
  "        self.pointers: Set[ModelPtr] = OrderedSet()\n        self.child_pointers: Set[ModelPtr] = OrderedSet()",
  "        self.pointers: Set[ModelPtr] = set()\n        self.child_pointers: Set[ModelPtr] = set()", "revert of fix cf464ce")
m("c06_undo_parents_orderedset", "C06", "catch", "json_to_models/models/structure.py",
  "parents = OrderedSet(ptr.parent.index for ptr in pointers)  # ordered: see next(iter(parents)) below\n            struct = structure_hash_table[key]\n            # Model is using by other models\n            if has_root_pointers or len(parents) > 1 and len(struct[\"roots\"]) > 1:",
  "parents = {ptr.parent.index for ptr in pointers}\n            struct = structure_hash_table[key]\n            # Model is using by other models\n            if has_root_pointers or len(parents) > 1 and len(struct[\"roots\"]) > 1:",
  "revert of fix 45bdcf5 (nested layout)")
m("c06_unsorted_literals", "C06", "catch", "json_to_models/dynamic_typing/complex.py",
  "                    for s in sorted(self.literals)\n", "                    for s in self.literals\n")
m("c06_unsorted_generated_name", "C06", "catch", "json_to_models/dynamic_typing/models_meta.py",
  "new_name = self.name_joiner(*map(inflection.camelize, sorted(filtered_names)))",
  "new_name = self.name_joiner(*map(inflection.camelize, filtered_names))")
m("c06_unsorted_import_classes", "C06", "catch", "json_to_models/dynamic_typing/typing.py",
  "((module, sorted(classes)) for module, classes in class_imports_map.items()),",
  "((module, list(classes)) for module, classes in class_imports_map.items()),")
m("c06_unsorted_merged_names", "C06", "catch", "json_to_models/registry.py",
  "model_meta.set_raw_name(ModelMeta.name_joiner(*sorted(originals_names)))",
  "model_meta.set_raw_name(ModelMeta.name_joiner(*originals_names))")
m("c06_group_closure_plain_set", "C06", "catch", "json_to_models/registry.py",
  "            new_groups: OrderedSet[FrozenSet[ModelMeta]] = OrderedSet()\n",
  "            new_groups: Set[FrozenSet[ModelMeta]] = set()\n")

# ---- C07 ------------------------------------------------------------------------------------------------------------
m("c07_undo_optional_symmetry", "C07", "catch", "json_to_models/generator.py",
  "                        if field_original == field:\n                            continue\n                        if isinstance(field, DOptional) and field_original == field.type:\n                            # Same type but optional in the new field set: the field becomes optional\n                            # (as in the mirrored case above), regardless of the order of field sets\n                            fields[name] = field\n                            continue\n",
  "                        if field_original == field or (isinstance(field, DOptional) and field_original == field.type):\n                            continue\n",
  "revert of fix c867381")
m("c07_later_new_fields_required", "C07", "catch", "json_to_models/generator.py",
  "                    field = field if first or isinstance(field, DOptional) else DOptional(field)\n",
  "                    field = field\n")
m("c07_int_float_one_order", "C07", "catch", "json_to_models/generator.py",
  "        if int in other_types and float in other_types:\n            other_types.remove(int)\n",
  "        if int in other_types and float in other_types and other_types.index(int) < other_types.index(float):\n            other_types.remove(int)\n")
m("c07_missing_fields_not_optional_when_last", "C07", "catch", "json_to_models/generator.py",
  "            for name in fields_diff:\n                # Missing fields becomes optionals\n                if not isinstance(fields[name], DOptional):\n",
  "            for name in fields_diff:\n                # Missing fields becomes optionals\n                if not isinstance(fields[name], DOptional) and model is not field_sets[-1]:\n",
  "a field missing only in the LAST delivered sample stays required")

# ---- C14 ------------------------------------------------------------------------------------------------------------
m("c14_undo_cache_key", "C14", "catch", "json_to_models/utils.py",
  "        key = (func.__name__, *args)\n", "        key = args\n", "revert of the cached_method fix")
m("c14_label_cache_module_level", "C14", "catch", "json_to_models/utils.py",
  "        if getattr(self, '__cache__', None) is None:\n            setattr(self, '__cache__', {})\n        # The instance cache is shared by all cached methods of the object: key it by method as well\n        key = (func.__name__, *args)\n        value = self.__cache__.get(key, ...)\n        if value is Ellipsis:\n            value = func(self, *args)\n            self.__cache__[key] = value\n        return value\n",
  "        key = (func.__name__, *args)\n        value = _shared_cache.get(key, ...)\n        if value is Ellipsis:\n            value = func(self, *args)\n            _shared_cache[key] = value\n        return value\n",
  "label cache shared by all generator instances (stale across unicode options)")
m("c14_pydantic_filter_deletes_fields", "C14", "catch", "json_to_models/models/pydantic.py",
  "            if field_type in (Unknown, Null):\n                continue\n",
  "            if field_type in (Unknown, Null):\n                del self.model.type[field]\n                continue\n")
m("c14_types_style_not_copied", "C14", "catch", "json_to_models/models/base.py",
  "        resolved_types_style = copy.deepcopy(self.default_types_style)\n",
  "        resolved_types_style = self.default_types_style\n",
  "max_literals / styles written into the class-level dict")
m("c14_default_registry_consulted", "C14", "catch", "json_to_models/generator.py",
  "            elif item in self.str_types_registry or item is str:\n",
  "            elif item in registry or item is str:\n",
  "union optimisation reads the process-global default registry despite an explicit one")
m("c14_context_not_restored_on_error", "C14", "blind", "json_to_models/dynamic_typing/models_meta.py",
  "        def __exit__(self, exc_type, exc_val, exc_tb):\n            self.data.context = self._old\n",
  "        def __exit__(self, exc_type, exc_val, exc_tb):\n            if exc_type is None:\n                self.data.context = self._old\n",
  "documented blind spot: mapping is always empty inside the C14 domain")

# ---- C15 ------------------------------------------------------------------------------------------------------------
m("c15_undo_threadlocal_default", "C15", "catch", "json_to_models/dynamic_typing/models_meta.py",
  "        class _Data(threading.local):\n            # class-level default: visible in every thread, not only in the one that imported this module\n            context: ContextInjectionType = None\n\n        data = _Data()\n",
  "        data = threading.local()\n        data.context: ContextInjectionType = None\n", "revert of fix 65eff87")
m("c15_shared_context_object", "C15", "catch", "json_to_models/dynamic_typing/models_meta.py",
  "        class _Data(threading.local):\n", "        class _Data:\n", "context shared by all threads")
m2("c15_module_level_index", "C15", "catch", [
    ("json_to_models/registry.py", "class ModelRegistry:\n    DEFAULT_MODELS_CMP", "_shared_index = Index()\n\n\nclass ModelRegistry:\n    DEFAULT_MODELS_CMP"),
    ("json_to_models/registry.py", "        self._index = Index()\n", "        self._index = _shared_index\n"),
], "model indices drawn from one process-wide counter")

# ---- C16 ------------------------------------------------------------------------------------------------------------
m("c16_undo_bool_js_style", "C16", "catch", "json_to_models/cli.py",
  "bool_js_style = lambda s: s if isinstance(s, bool) else {\"true\": True, \"false\": False}.get(s, None)",
  "bool_js_style = lambda s: {\"true\": True, \"false\": False}.get(s, None)", "revert of fix 31dc428")
m("c16_max_literals_not_forwarded", "C16", "catch", "json_to_models/cli.py",
  "            convert_unicode=not disable_unicode_conversion,\n            max_literals=self.max_literals\n",
  "            convert_unicode=not disable_unicode_conversion,\n")
m("c16_regex_not_anchored", "C16", "catch", "json_to_models/cli.py",
  "self.dict_keys_regex = [re.compile(rf\"^{r}$\") for r in dict_keys_regex] if dict_keys_regex else ()",
  "self.dict_keys_regex = [re.compile(r) for r in dict_keys_regex] if dict_keys_regex else ()")
m("c16_later_file_replaces_samples", "C16", "catch", "json_to_models/cli.py",
  "                models_dict[model_name].extend(iterator)\n",
  "                models_dict[model_name] = list(iterator)\n")
m("c16_o_without_final_newline", "C16", "catch", "json_to_models/cli.py",
  "                f.write(output)\n", "                f.write(output.rstrip(\"\\n\"))\n")
m("c16_unidecode_flag_inverted_for_o", "C16", "catch", "json_to_models/cli.py",
  "            convert_unicode=not disable_unicode_conversion,\n",
  "            convert_unicode=not disable_unicode_conversion or bool(self.output_file),\n",
  "--no-unidecode ignored when -o is given")
m("c16_neg_sorted_glob", "C16", "silent", "json_to_models/cli.py",
  "        return path.glob(pattern_path)\n", "        return sorted(path.glob(pattern_path))\n",
  "NEGATIVE CONTROL: any enumeration order is allowed")

# ---- C17 ------------------------------------------------------------------------------------------------------------
m2("c17_output_opened_before_generation", "C17", "catch", [
    ("json_to_models/cli.py", "        registry = ModelRegistry(*self.merge_policy)\n",
     "        registry = ModelRegistry(*self.merge_policy)\n        out_f = open(self.output_file, \"w\", encoding=\"utf-8\") if self.output_file else None\n"),
    ("json_to_models/cli.py", "            with open(self.output_file, \"w\", encoding=\"utf-8\") as f:\n", "            with out_f as f:\n"),
])
m("c17_exceptions_swallowed", "C17", "catch", "json_to_models/cli.py",
  "    cli = Cli()\n    cli.parse_args()\n    print(cli.run())\n",
  "    cli = Cli()\n    try:\n        cli.parse_args()\n        print(cli.run())\n    except Exception as e:\n        print(f\"Error: {e}\", file=sys.stderr)\n")
m("c17_header_printed_before_generation", "C17", "catch", "json_to_models/cli.py",
  "        structure = self.structure_fn(registry.models_map)\n        output = self.version_string + generate_code(",
  "        structure = self.structure_fn(registry.models_map)\n        if not self.output_file:\n            print(self.version_string, end=\"\")\n        output = (\"\" if not self.output_file else self.version_string) + generate_code(")
m("c17_append_mode", "C17", "catch", "json_to_models/cli.py",
  "            with open(self.output_file, \"w\", encoding=\"utf-8\") as f:\n",
  "            with open(self.output_file, \"a\", encoding=\"utf-8\") as f:\n")
m("c17_non_object_samples_skipped", "C17", "catch", "json_to_models/cli.py",
  "    if isinstance(item, list):\n        yield from item\n",
  "    if isinstance(item, list):\n        yield from (i for i in item if isinstance(i, dict))\n")
m2("c17_neg_lazy_loading", "C17", "silent", [
    ("json_to_models/cli.py", "        models_dict: Dict[str, List[dict]] = defaultdict(list)\n",
     "        models_dict: Dict[str, List[Iterable[dict]]] = defaultdict(list)\n"),
    ("json_to_models/cli.py", "                iterator = iter_json_file(parser(real_path), lookup)\n                models_dict[model_name].extend(iterator)\n",
     "                models_dict[model_name].append(_lazy_file(parser, real_path, lookup))\n"),
    ("json_to_models/cli.py", "        self.models_data = models_dict\n",
     "        self.models_data = {name: itertools.chain.from_iterable(its) for name, its in models_dict.items()}\n"),
    ("json_to_models/cli.py", "def dict_lookup(d: Union[dict, list], lookup: str)",
     "def _lazy_file(parser, real_path, lookup):\n    yield from iter_json_file(parser(real_path), lookup)\n\n\ndef dict_lookup(d: Union[dict, list], lookup: str)"),
], "NEGATIVE CONTROL: errors surface in run() but still before the output is opened")


def main():
    os.makedirs(OUT, exist_ok=True)
    index = []
    for name, prop, expect, edits, note in M:
        diffs = []
        files = {}
        for path, old, new in edits:
            src = files.get(path)
            if src is None:
                src = open(os.path.join(REPO, path), encoding="utf-8").read()
                files[path] = src
            if src.count(old) != 1:
                print(f"!! {name}: old text found {src.count(old)} times in {path}", file=sys.stderr)
                break
            files[path] = files[path].replace(old, new)
        else:
            for path, new_src in files.items():
                orig = open(os.path.join(REPO, path), encoding="utf-8").read()
                if "_shared_cache" in new_src and "_shared_cache = {}" not in new_src:
                    new_src = new_src.replace("def cached_method(func: Callable):", "_shared_cache = {}\n\n\ndef cached_method(func: Callable):")
                diffs.append("".join(difflib.unified_diff(orig.splitlines(True), new_src.splitlines(True),
                                                          "a/" + path, "b/" + path)))
            with open(os.path.join(OUT, name + ".diff"), "w", encoding="utf-8") as f:
                f.write("".join(diffs))
            index.append({"name": name, "property": prop, "expect": expect, "note": note})
    import json
    with open(os.path.join(OUT, "index.json"), "w") as f:
        json.dump(index, f, indent=1)
    print(f"{len(index)} of {len(M)} catalogue patches written to {OUT}")


if __name__ == "__main__":
    main()
