#!/bin/bash
# tools/sensitivity.sh [name-prefix] : run every catalogue mutant against the check of its property, print a table.
# Also verifies that the patched tree still passes the repository's own test suite when SENS_TESTS=1.
DIR="$(cd "$(dirname "${BASH_SOURCE[0]}")/.." && pwd)"
CAT="$DIR/seeded/catalogue"
PY=/venv/bin/python
$PY - "$CAT/index.json" "${1:-}" <<'PYEOF' | while IFS=$'\t' read -r name prop expect; do
import json, sys
for e in json.load(open(sys.argv[1])):
    if e["name"].startswith(sys.argv[2]):
        print(e["name"], e["property"], e["expect"], sep="\t")
PYEOF
  out=$(MUTANT_ARGS="${SENS_ARGS:-}" "$DIR/tools/mutant.sh" "$CAT/$name.diff" "$prop" 2>&1)
  rc=$?
  nv=$(echo "$out" | grep -c "^VIOLATION")
  he=$(echo "$out" | grep -c "HARNESS")
  verdict="MISSED"
  [ "$nv" -gt 0 ] && verdict="caught"
  [ "$he" -gt 0 ] && verdict="HARNESS-ERROR"
  tests="-"
  if [ -n "${SENS_TESTS:-}" ]; then
    S=$(mktemp -d /dev/shm/j2m-senst-XXXXXX); rsync -a --exclude .git --exclude __pycache__ /repo/ "$S/"
    (cd "$S" && patch -p1 -s < "$CAT/$name.diff" && PYTHONPATH="$S" timeout 1800 $PY -m pytest -q -p no:cacheprovider -x 2>&1 | tail -1) > "$S.log"; tests=$(cat "$S.log" | tr -d '\n' | cut -c1-60); rm -rf "$S" "$S.log"
  fi
  printf "%-45s %-4s expect=%-6s -> %-14s violations=%s tests=%s\n" "$name" "$prop" "$expect" "$verdict" "$nv" "$tests"
  echo "$out" | grep -m1 "what:" | cut -c1-220
done
