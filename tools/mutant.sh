#!/bin/bash
# tools/mutant.sh <patch.diff> <check id>... : apply a patch to a scratch copy of /repo's working tree and run checks on it
# (sensitivity testing only; evidence and replays go to the scratch directory, /repo is never touched)
set -u
PATCH="$(readlink -f "$1")"; shift
DIR="$(cd "$(dirname "${BASH_SOURCE[0]}")/.." && pwd)"
S="$(mktemp -d /dev/shm/j2m-mutant-XXXXXX)"
trap 'rm -rf "$S"' EXIT
mkdir -p "$S/repo" "$S/ev" "$S/rp"
rsync -a --exclude .git --exclude __pycache__ /repo/ "$S/repo/"
if ! (cd "$S/repo" && (patch -p1 -s --dry-run < "$PATCH" >/dev/null 2>&1 && patch -p1 -s < "$PATCH" || patch -p1 -s -F3 < "$PATCH")); then echo "PATCH-FAILED"; exit 3; fi
rc_all=0
for id in "$@"; do
  VERIF_REPO="$S/repo" VERIF_EVIDENCE_DIR="$S/ev" VERIF_REPLAY_DIR="$S/rp" "$DIR/check" "$id" ${MUTANT_ARGS:-} 2>&1 | grep -E "VIOLATION|what:|KNOWN-FINDING|HARNESS|quick:|thorough:" | cut -c1-400
  rc=${PIPESTATUS[0]}
  echo "mutant: check $id exit $rc"
  [ "$rc" -ne 0 ] && rc_all=1
done
if [ -n "${MUTANT_KEEP_REPLAYS:-}" ]; then mkdir -p "$MUTANT_KEEP_REPLAYS"; cp "$S"/rp/*.json "$MUTANT_KEEP_REPLAYS"/ 2>/dev/null; fi
exit $rc_all
