import json
NA = {
 "C01": "pure function of (samples, options): soundness of inferred models needs input enumeration and execution of emitted classes; no schedule, clock, fault, interleaving or process history in the statement for a simulator to own",
 "C02": "pure function of input (tightness of inferred types per graph position); nothing environment-dependent to simulate",
 "C03": "property of each emitted program (compiles, names resolve); static/exec check per program, no environment dependence",
 "C04": "per-program equivalence between emitted classes and the model graph (translation validation); no environment dependence",
 "C05": "combinatorial fact about the merge relation vs comparator closure (small-scope enumeration of graphs); no fault, order or history in the statement",
 "C08": "algebraic normal-form/idempotence property of a pure rewriting function; 're-running' is function composition, not process history",
 "C09": "pure string functions (pseudo-type detection and round trip)",
 "C10": "pure function of the string set and the literal limit",
 "C11": "pure function of key strings (renaming injective and recoverable)",
 "C12": "differential between two pure functions of the model graph (flat vs nested layout)",
 "C13": "pure function of keys and options (dict-vs-model decision)",
 "C18": "executing emitted attrs/dataclass programs on their inputs; pure, no schedule/fault/history",
 "C19": "pure function of argv/preamble text; the only environment input (clock) contributes a fixed-format ctime() string",
}
checks = []
def chk(pid, cat, text, ref, note, tech, thorough=True):
    c = {"property_id": pid, "quick_cmd": f"./check {pid} --tier quick",
         "evidence_file": f"/verif/evidence/{pid}.json", "replay_cmd_template": f"./check {pid} --replay {{path}}",
         "engine": "sim", "level_claimed": {"category": cat, "text": text, "design_ref": ref},
         "level_note": note, "technique": tech}
    if thorough:
        c["thorough_cmd"] = f"./check {pid} --tier thorough"
    checks.append(c)
import sys
claimed = sys.argv[1:]
DEFS = {
 "C06": ("exploration",
   "Seeded search over the environment dimensions the statement names: (B) 16 real CPython interpreters with distinct PYTHONHASHSEEDs and seeded simulated ModelPtr addresses must print byte-identical code for the same samples/options in both layouts (four of the interpreters also run with asserts stripped, python -O) - any disagreement is a violation by definition; (A) an in-process order scheduler permutes the iteration order of every volatile set (seeded, per-site streams) to nominate candidates, confirmed by a wide real-interpreter sweep or listed as unconfirmed; (C) the real CLI as a subprocess under 4 hash seeds per workload with samples delivered as one file, many explicit files, plain and recursive glob patterns in one fixed directory, with environment variation that is not input (terminal size, HOME, TZ, LC_ALL, -O, working directory, shuffled file modification times) and the same command run twice with relative paths and -o; (D) the in-process CLI at two simulated instants (clock jumps, extreme dates) may differ only in the timestamp line, and not at all at the same instant. Sampling, not enumeration.",
   "DESIGN.md 4.1",
   "Violations come only from real interpreters. Simulated addresses are assumed to be legal memory layouts. The instrumented loader rewrites set constructors only (fidelity is cross-checked against stable real outputs on every run).",
   "deterministic simulation: seeded set-iteration-order scheduler (AST seam) + PYTHONHASHSEED / simulated-address sweep over real interpreters, byte-equality oracle, ddmin attribution to iteration sites"),
 "C07": ("exploration",
   "Reorder / duplicate fault model on sample deliveries: for seeded base sample lists, seeded permutations and repetitions of already present samples (single repeats and one sample repeated 40-1100 times), given directly or as files behind scheduled glob enumeration orders, are inferred in pristine processes and the canonical model graph (colour refinement; field order, union member order, numeric name suffixes abstracted) must equal that of the base list. Sampling of permutations/duplications, not enumeration; base lists are generated workload.",
   "DESIGN.md 4.2",
   "Colour refinement is isomorphism-invariant (no false alarms on allowed differences) but could equate two non-isomorphic graphs (detection loss only). Pairs where either side raises are skipped.",
   "deterministic simulation: seeded reordering/duplication of sample deliveries vs reference run, canonical-graph equality oracle, structural shrinking"),
 "C16": ("exploration",
   "Seeded scenarios (sample sets split over files, lookups, repeated -m/-l, glob patterns with up to 12 files; json/yaml/ini; CLI-expressible options in equivalent spellings: long names, --name=value, any option position, overridden -f/-s, -f custom with a built-in generator; also as the second command of a process whose first command saw older contents at the same paths) run through the real cli.main() in-process behind simulated seams: scheduled directory-enumeration order, simulated clock (jumps, extreme instants), interposed file objects with an event log. Stdout / -o file after the header must equal the text a small executable reference model of the front end (independent parse + lookup + concatenation in argument order, glob files in observed open order, library pipeline in a pristine fork) returns; -o file must equal the stdout of the same run without -o at the same simulated instant except the command line. Thorough tier cross-checks sampled scenarios against the real CLI subprocess.",
   "DESIGN.md 4.5",
   "The reference model encodes my reading of the documented option meanings; option domain restricted accordingly. Sample sets/options are generated workload; the simulated dimensions are enumeration order, clock and file objects.",
   "deterministic simulation: in-process CLI behind simulated directory order / clock / file seams, differential oracle vs executable reference model of the front end, event-log based ordering check"),
 "C17": ("fault_enumeration",
   "Systematic fault enumeration: for every base scenario (good multi-file CLI scenario whose fault-free controls pass) every fault kind (missing file, dangling symlink, directory, torn/flipped/empty JSON/YAML/INI - kept only if an independent parser fails too -, wrong lookup, non-object sample, non-string keys incl. the integer-key twin of a good sample, 256/512 faulty files at once, invalid arguments, bad framework/generator combinations, raising custom generator, crash injected at seeded line events before the output file is first modified, read errors at open / mid-read) x position of the faulty file (first/middle/last, own argument / glob member) x output mode (stdout, -o absent, -o present with non-UTF-8 sentinel) is executed by the real cli.main() behind simulated seams; oracle: exit status != 0 (low 8 bits, as the OS reports it), no model code on stdout, sentinel bytes identical. Fault-free controls also run with -o pointing at the output of an earlier run (same code / old preamble / extra class) and must leave exactly header(this run) + library text; a real-process control under LC_ALL=C must succeed and write complete UTF-8. Write errors (interposed open/write/close errors and a real RLIMIT_FSIZE smaller than the text) check only 'exit 0 implies complete text'. Two-command sequences in one process (input changes on disk in between) and awkward but legal arguments / inputs (lone surrogates) check 'non-zero exit implies untouched output'. Thorough tier re-runs sampled scenarios with the real CLI process.",
   "DESIGN.md 4.6",
   "In-process exit-status emulation (SystemExit code / uncaught exception -> 1) is validated against the real process only in the thorough tier. Dynamic I/O faults rely on the CLI opening files through cli.Path.open / cli.open; state faults do not.",
   "deterministic simulation: fault enumeration (state faults in a scratch file system, interposed I/O errors, trace-based crash points) over in-process CLI runs, final-state + event-log oracle"),
 "C14": ("exploration",
   "Seeded search over process histories: sequences of 2-4 (thorough: up to 6) GEN / RENDER operations over 1-3 registry slots in one process, including calls killed by an injected crash at a seeded line event in-process CLI runs that mutate the process-global default string-type registry, and caller objects re-used across calls (one kwargs dict, one StringSerializableRegistry with types removed in between, one MetadataGenerator, one list of comparators) and pairs of judged in-process CLI commands on the same paths with the files rewritten in between; every non-crashing GEN/RENDER must produce byte-identical output to the same call in a pristine forked process after only the GEN of its slot. Nested layout only on tree-shaped graphs, unicode option fixed per slot (the property's own domain). Sampling of histories, not enumeration.",
   "DESIGN.md 4.3",
   "Both sides run with insertion-ordered sets, so only state carried through the process can make them differ. Inside the claimed domain the absolute-reference mapping is always empty, so an un-restored reference context is not observable here (C15 covers it).",
   "deterministic simulation: seeded history machine with trace-based crash injection, differential oracle vs pristine forked process, ddmin of the operation list"),
 "C15": ("exploration",
   "Seeded search over thread interleavings: 1-8 independent pipelines on real threads under a baton scheduler that pre-empts at line events inside repository frames, with biases towards the thread-local context code, towards the first execution of every function (with a 'stalled thread' fault that keeps the pre-empted thread off the CPU), towards threads that render shared nested sub-models, share one document with option variations, share the process-global default string-type registry, run whole in-process CLI commands (json/yaml/ini input, -o) with frames of the YAML library as additional pre-emption points, re-use a worker thread that generated before, or process a document nested beyond the default recursion limit; every thread's outcome must equal the outcome of the same pipeline alone in a pristine process. A clean batch is evidence over the sampled interleavings, not proof.",
   "DESIGN.md 4.4",
   "Pre-emption granularity is a source line; switches inside C calls / Jinja template bodies are not simulated. Reference runs use insertion-ordered sets (identity order) like the threaded runs.",
   "deterministic simulation: seeded baton-passing thread scheduler (sys.settrace pre-emption points), differential oracle vs pristine-process run, ddmin of the switch list"),
}
for pid in claimed:
    chk(pid, *DEFS[pid])
m = {
 "version": 1,
 "setup_cmd": "./check selftest",
 "hooks": {"guard": "J2M_VERIF", "enable": "no source hook exists in /repo: all seams are external (import-time AST rewrite of set constructors by /verif/sim/loader.py, module globals of json_to_models.cli, sys.settrace). J2M_VERIF=1 only marks harness processes and is never read by /repo.",
           "baseline_off_cmd": "cd /repo && /venv/bin/python -m pytest -ra -q -p no:cacheprovider --timeout=900 --continue-on-collection-errors",
           "source_commits": [], "add_only": True},
 "engines": [{"name": "sim", "path": "/verif/sim", "serves_properties": claimed,
              "kind_free_text": "deterministic simulation with fault injection: seeded schedulers for set-iteration order, thread interleaving, crash points, clock, directory order and file I/O faults; fork-per-run zygote workers; real-interpreter workers for ground truth; ddmin minimisation; explicit replay files"}],
 "checks": checks,
 "not_applicable": [{"property_id": k, "reason": v} for k, v in NA.items()] +
    [{"property_id": p, "reason": "claimed in DESIGN.md; check not yet built in this commit (work in progress)"} for p in ["C06","C07","C14","C15","C16","C17"] if p not in claimed],
 "notes": "See DESIGN.md. Exit codes: 0 held, 1 VIOLATION, 2 HARNESS-ERROR (never mapped to 0).",
}
json.dump(m, open("/verif/MANIFEST.json", "w"), indent=1)
