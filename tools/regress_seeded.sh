#!/bin/bash
# tools/regress_seeded.sh [id-prefix] : run every kept seeded change against the check(s) named in its meta.json
# (detection regression after harness changes).  Prints caught / MISSED per change.
DIR="$(cd "$(dirname "${BASH_SOURCE[0]}")/.." && pwd)"
for d in "$DIR"/seeded/${1:-C}*/; do
  id=$(basename "$d")
  [ -f "$d/meta.json" ] || continue
  prop=$(/venv/bin/python -c "import json,sys; print(json.load(open('$d/meta.json'))['breaks_property'])")
  checks=$prop
  case "$id" in C06-3|C06-4) checks="C14";; C06-12|C07-14|C14-14) checks="C16";; C15-14) checks="C06";; esac
  out=$(MUTANT_ARGS="${REGRESS_ARGS:-}" "$DIR/tools/mutant.sh" "$d/patch.diff" $checks 2>&1)
  nv=$(echo "$out" | grep -c "^VIOLATION"); he=$(echo "$out" | grep -c "HARNESS")
  v="MISSED"; [ "$nv" -gt 0 ] && v="caught"; [ "$he" -gt 0 ] && v="HARNESS-ERROR"
  echo "$out" | grep -q "PATCH-FAILED" && v="PATCH-DOES-NOT-APPLY"
  printf "%-8s %-4s -> %-14s (%s violation lines)\n" "$id" "$checks" "$v" "$nv"
done
