#!/bin/bash
# tools/regress_benign.sh : run every negative control (behaviour-preserving refactoring) against all six checks.
# Any VIOLATION or HARNESS-ERROR here is a defect of the verification machinery.
DIR="$(cd "$(dirname "${BASH_SOURCE[0]}")/.." && pwd)"
for d in "$DIR"/seeded/benign/BENIGN-*/ "$DIR"/seeded/benign/own_cli_refactor.diff; do
  if [ -d "$d" ]; then p="$d/patch.diff"; id=$(basename "$d"); else p="$d"; id=$(basename "$d" .diff); fi
  out=$("$DIR/tools/mutant.sh" "$p" C06 C07 C14 C15 C16 C17 2>&1)
  nv=$(echo "$out" | grep -c "^VIOLATION"); he=$(echo "$out" | grep -c "HARNESS")
  v="silent"; [ "$nv" -gt 0 ] && v="FALSE-ALARM"; [ "$he" -gt 0 ] && v="HARNESS-ERROR"
  echo "$out" | grep -q "PATCH-FAILED" && v="does not apply to the current HEAD (made for repo commit 1a96393; was silent there)"
  printf "%-20s -> %s\n" "$id" "$v"
  [ "$v" != "silent" ] && echo "$out" | grep -E "VIOLATION|what:|HARNESS" | cut -c1-300
done
